"""B8 (b): sqlemu -- tokenizer + Pratt parser + naive executor for the SELECT statements that pony's SQLBuilder and its
PostgreSQL / MySQL / Oracle subclasses emit for the C01 query space, with SQL three-valued logic and one *personality*
per dialect.

Trust structure
---------------
* The relational core (FROM / JOIN / WHERE / GROUP BY / HAVING / DISTINCT / ORDER BY / LIMIT, correlated subqueries,
  three-valued logic, aggregates) is shared by all personalities and is cross-validated on every C02 case: the `sqlite`
  personality is run on the SQL of the live SQLite provider and must return exactly the rows real SQLite returns.
* What differs per dialect is confined to the small Personality subclasses below.  Every entry there is a transcription of
  the PostgreSQL 16 manual ("PG n.n"), the MariaDB 10.11 Knowledge Base / MySQL 8.0 reference manual ("MY ...") or the
  Oracle SQL Language Reference ("ORA ..."); the section is cited next to the entry.  These entries are trusted text.
* Anything that is not in a table raises `Unmodelled`: the case is INCONCLUSIVE (counted by the caller), never a violation.

Exceptions
----------
Unmodelled          a construct / operand combination whose meaning is not transcribed  => inconclusive
CollationSensitive  (Unmodelled) MySQL only: the outcome of a string comparison depends on the collation
                    (case-insensitive / PAD SPACE vs. binary): the data are outside the domain every backend compares exactly
SqlSyntaxError      the text is not a statement of the dialect's grammar (as far as this parser transcribes it)
ServerError         the modelled server refuses the statement at run time by a documented rule (e.g. PG: boolean = integer)
"""
import re
import json
import decimal
import functools

Decimal = decimal.Decimal


class Unmodelled(Exception):
    pass


class CollationSensitive(Unmodelled):
    pass


class SqlSyntaxError(Exception):
    pass


class ServerError(Exception):
    pass


# =====================================================================================================================
# tokenizer
# =====================================================================================================================
# token = (kind, value)   kinds: 'id' quoted identifier, 'w' bare word (lower-cased), 'num', 'str', 'op', 'ph' placeholder

_OPS2 = ('<>', '!=', '<=', '>=', '||', '::', '==')
_OPS1 = '=<>+-*/%(),.;'
_NUM_RE = re.compile(r'\d+(\.\d*)?([eE][+-]?\d+)?|\.\d+([eE][+-]?\d+)?')
_WORD_RE = re.compile(r'[A-Za-z_][A-Za-z0-9_$#]*')
_PYFORMAT_RE = re.compile(r'%\(([A-Za-z0-9_]+)\)s')

# MY 9.1.1 "String Literals", table of special character escape sequences
_MYSQL_ESCAPES = {'0': '\0', "'": "'", '"': '"', 'b': '\b', 'n': '\n', 'r': '\r', 't': '\t', 'Z': '\x1a', '\\': '\\'}


def tokenize(sql, P, raw=False):
    """raw=True: the text comes straight from pony (placeholders of the provider's paramstyle are still in it and, under
    the format / pyformat styles, a literal percent sign is written %%).  raw=False: the text is what reaches the server."""
    toks = []
    i, n = 0, len(sql)
    style = P.paramstyle if raw else P.server_paramstyle
    percent_doubled = raw and P.paramstyle in ('format', 'pyformat')
    while i < n:
        c = sql[i]
        if c.isspace():
            i += 1
            continue
        if c == P.ident_quote:
            j = i + 1
            buf = []
            while True:
                if j >= n:
                    raise SqlSyntaxError('unterminated quoted identifier at offset %d' % i)
                if sql[j] == c:
                    if j + 1 < n and sql[j + 1] == c:
                        buf.append(c)
                        j += 2
                        continue
                    break
                buf.append(sql[j])
                j += 1
            toks.append(('id', ''.join(buf)))
            i = j + 1
            continue
        if c == "'" or (c == '"' and P.dquote_is_string):
            j = i + 1
            buf = []
            while True:
                if j >= n:
                    raise SqlSyntaxError('unterminated string literal at offset %d: %r' % (i, sql[i:i + 40]))
                ch = sql[j]
                if ch == c:
                    if j + 1 < n and sql[j + 1] == c:
                        buf.append(c)
                        j += 2
                        continue
                    break
                if ch == '\\' and P.backslash_escapes:
                    if j + 1 >= n:
                        raise SqlSyntaxError('unterminated string literal at offset %d' % i)
                    e = sql[j + 1]
                    if e in _MYSQL_ESCAPES:
                        buf.append(_MYSQL_ESCAPES[e])
                    elif e in '%_':
                        buf.append('\\' + e)       # MY 9.1.1: \% and \_ keep the backslash (for LIKE)
                    else:
                        buf.append(e)              # MY 9.1.1: "for all other escape sequences, backslash is ignored"
                    j += 2
                    continue
                if ch == '%' and percent_doubled:
                    if j + 1 < n and sql[j + 1] == '%':
                        buf.append('%')
                        j += 2
                        continue
                    raise SqlSyntaxError('single %% inside a string literal of a %s-style statement at offset %d: the driver '
                                         'would take it for a placeholder: %r' % (P.paramstyle, j, sql[i:j + 10]))
                buf.append(ch)
                j += 1
            toks.append(('str', ''.join(buf)))
            i = j + 1
            continue
        if c.isdigit() or (c == '.' and i + 1 < n and sql[i + 1].isdigit()):
            m = _NUM_RE.match(sql, i)
            text = m.group(0)
            j = m.end()
            if j < n and (sql[j].isalpha() or sql[j] == '_'):
                raise SqlSyntaxError('malformed number at offset %d: %r' % (i, sql[i:j + 5]))
            if re.fullmatch(r'\d+', text):
                toks.append(('num', int(text)))
            elif 'e' in text.lower():
                toks.append(('num', float(text)))
            else:
                toks.append(('num', P.decimal_literal(text)))
            i = j
            continue
        if c.isalpha() or c == '_':
            m = _WORD_RE.match(sql, i)
            toks.append(('w', m.group(0).lower()))
            i = m.end()
            continue
        # placeholders
        if c == '?' and style == 'qmark':
            toks.append(('ph', None))
            i += 1
            continue
        if c == '%' and style in ('format', 'pyformat'):
            if sql.startswith('%s', i) and style == 'format':
                toks.append(('ph', None))
                i += 2
                continue
            m = _PYFORMAT_RE.match(sql, i)
            if m and style == 'pyformat':
                toks.append(('ph', m.group(1)))
                i = m.end()
                continue
            if sql.startswith('%%', i):
                toks.append(('op', '%'))
                i += 2
                continue
            raise SqlSyntaxError('single %% in a %s-style statement at offset %d: %r' % (style, i, sql[i:i + 12]))
        if c == ':' and style == 'named' and i + 1 < n and (sql[i + 1].isalnum() or sql[i + 1] == '_'):
            m = re.compile(r':([A-Za-z0-9_]+)').match(sql, i)
            toks.append(('ph', m.group(1)))
            i = m.end()
            continue
        if c == '$' and style == 'dollar' and i + 1 < n and sql[i + 1].isdigit():
            m = re.compile(r'\$(\d+)').match(sql, i)
            toks.append(('ph', int(m.group(1)) - 1))
            i = m.end()
            continue
        if c == '#' and P.has_json_path_ops and sql.startswith('#>', i):
            op = '#>>' if sql.startswith('#>>', i) else '#>'
            toks.append(('op', op))
            i += len(op)
            continue
        two = sql[i:i + 2]
        if two in _OPS2:
            if two == '::' and not P.has_double_colon_cast:
                raise SqlSyntaxError(':: is not an operator of %s (offset %d)' % (P.name, i))
            toks.append(('op', two))
            i += 2
            continue
        if c in _OPS1:
            toks.append(('op', c))
            i += 1
            continue
        if c in '#?@&|^~!<>[]{}':
            raise Unmodelled('operator character %r at offset %d (JSON / array / bit operators are not transcribed)' % (c, i))
        raise SqlSyntaxError('unexpected character %r at offset %d' % (c, i))
    return toks


# =====================================================================================================================
# parser (Pratt)
# =====================================================================================================================
AGGREGATES = ('count', 'sum', 'min', 'max', 'avg')
_CLAUSE_WORDS = ('from', 'where', 'group', 'having', 'order', 'limit', 'offset', 'for', 'union', 'intersect', 'except',
                 'inner', 'left', 'join', 'on', 'as', 'and', 'or', 'then', 'else', 'end', 'when', 'desc', 'asc', 'escape')
_UNMODELLED_WORDS = ('extract', 'interval', 'timestamp', 'date', 'current_date', 'current_timestamp', 'array', 'any', 'all',
                     'union', 'intersect', 'except', 'over', 'collate', 'regexp', 'div', 'mod', 'xor', 'similar', 'ilike')


class Parser(object):
    def __init__(self, toks, P):
        self.t = toks
        self.i = 0
        self.P = P
        self.nph = 0

    # ---- token helpers
    def peek(self, k=0):
        j = self.i + k
        return self.t[j] if j < len(self.t) else (None, None)

    def at_word(self, *words):
        for k, w in enumerate(words):
            if self.peek(k) != ('w', w):
                return False
        return True

    def word(self, *words):
        if self.at_word(*words):
            self.i += len(words)
            return True
        return False

    def need_word(self, *words):
        if not self.word(*words):
            self.fail('expected %s' % ' '.join(words).upper())

    def at_op(self, op):
        return self.peek() == ('op', op)

    def op(self, op):
        if self.at_op(op):
            self.i += 1
            return True
        return False

    def need_op(self, op):
        if not self.op(op):
            self.fail('expected %r' % op)

    def fail(self, msg):
        raise SqlSyntaxError('%s at token %d: ...%s' % (msg, self.i, ' '.join(str(v) for k, v in self.t[max(0, self.i - 4):self.i + 4])))

    # ---- statements
    def statement(self):
        sel = self.select()
        self.op(';')
        if self.i != len(self.t):
            self.fail('trailing tokens after the statement')
        return sel

    def select(self):
        self.need_word('select')
        sel = {'distinct': False, 'items': [], 'from': [], 'where': None, 'group': None, 'having': None, 'order': None,
               'limit': None, 'offset': None, 'for_update': None}
        if self.word('distinct'):
            sel['distinct'] = True
        elif self.word('all'):
            pass
        while True:
            sel['items'].append(self.select_item())
            if not self.op(','):
                break
        if self.word('from'):
            sel['from'] = self.from_clause()
        if self.word('where'):
            sel['where'] = self.expr()
        if self.word('group', 'by'):
            sel['group'] = self.expr_list()
        if self.word('having'):
            sel['having'] = self.expr()
        if self.word('order', 'by'):
            order = []
            while True:
                e = self.expr()
                desc = False
                if self.word('desc'):
                    desc = True
                else:
                    self.word('asc')
                if self.at_word('nulls'):
                    raise Unmodelled('NULLS FIRST/LAST')
                order.append((e, desc))
                if not self.op(','):
                    break
            sel['order'] = order
        if self.word('limit'):
            sel['limit'] = self.limit_operand()
            if self.word('offset'):
                sel['offset'] = self.limit_operand()
            elif self.at_op(','):
                raise Unmodelled('LIMIT offset, count')
        elif self.word('offset'):
            raise Unmodelled('OFFSET without LIMIT')
        if self.word('for', 'update'):
            fu = 'for update'
            if self.word('nowait'):
                fu += ' nowait'
            if self.word('skip', 'locked'):
                fu += ' skip locked'
            sel['for_update'] = fu
        if self.peek()[0] == 'w' and self.peek()[1] in ('union', 'intersect', 'except'):
            raise Unmodelled('set operation %s' % self.peek()[1])
        return sel

    def limit_operand(self):
        """LIMIT / OFFSET operand as written: ('num', v) | ('null',) | ('neg', v) | ('other', text)"""
        k, v = self.peek()
        if k == 'num':
            self.i += 1
            return ('num', v)
        if (k, v) == ('w', 'null'):
            self.i += 1
            return ('null',)
        if (k, v) == ('op', '-') and self.peek(1)[0] == 'num':
            self.i += 2
            return ('neg', self.t[self.i - 1][1])
        if (k, v) == ('w', 'all'):
            self.i += 1
            return ('all',)
        self.fail('LIMIT/OFFSET operand is not a literal')

    def select_item(self):
        if self.at_op('*'):
            self.i += 1
            return (('star', None), None)
        if self.peek()[0] in ('id', 'w') and self.peek(1) == ('op', '.') and self.peek(2) == ('op', '*') \
                and not (self.peek()[0] == 'w' and self.peek()[1] in _CLAUSE_WORDS):
            k, name = self.peek()
            if k == 'w':
                name = self.P.fold_bare(name)
            self.i += 3
            return (('star', name), None)
        e = self.expr()
        alias = None
        if self.word('as'):
            alias = self.ident()
        elif self.peek()[0] == 'id':
            alias = self.ident()       # Oracle: ROWNUM "row-num"
        return (e, alias)

    def ident(self):
        k, v = self.peek()
        if k == 'id':
            self.i += 1
            return v
        if k == 'w' and v not in _CLAUSE_WORDS:
            self.i += 1
            return self.P.fold_bare(v)
        self.fail('expected an identifier')

    def from_clause(self):
        sources = [self.source(None)]
        while True:
            if self.op(','):
                sources.append(self.source('cross'))
            elif self.word('inner', 'join') or self.word('join'):
                s = self.source('inner')
                self.need_word('on')
                s['on'] = self.expr()
                sources.append(s)
            elif self.word('left', 'join') or self.word('left', 'outer', 'join'):
                s = self.source('left')
                self.need_word('on')
                s['on'] = self.expr()
                sources.append(s)
            else:
                break
        return sources

    def source(self, join):
        s = {'join': join, 'on': None}
        if self.at_op('('):
            self.i += 1
            s['sub'] = self.select()
            self.need_op(')')
            s['table'] = None
        else:
            name = self.ident()
            while self.op('.'):
                name = self.ident()           # schema-qualified: keep the last part
            s['table'] = name
        self.word('as')
        k, v = self.peek()
        if k == 'id' or (k == 'w' and v not in _CLAUSE_WORDS and v not in ('where', 'group', 'order', 'limit')):
            s['alias'] = self.ident()
        else:
            s['alias'] = s['table']
            if s['table'] is None and self.P.derived_table_needs_alias:
                self.fail('a subquery in FROM needs an alias')
        return s

    def expr_list(self):
        out = [self.expr()]
        while self.op(','):
            out.append(self.expr())
        return out

    # ---- expressions
    def expr(self, rbp=0):
        left = self.prefix()
        while True:
            k, v = self.peek()
            if k == 'op':
                bp = self.P.binop_bp.get(v)
                if bp is None or bp <= rbp:
                    break
                self.i += 1
                if v == '::':
                    left = ('cast', left, self.type_name())
                    continue
                right = self.expr(bp)
                if v in ('=', '==', '<>', '!=', '<', '<=', '>', '>='):
                    left = ('cmp', {'==': '=', '!=': '<>'}.get(v, v), left, right)
                else:
                    left = ('bin', v, left, right)
                continue
            if k != 'w':
                break
            cbp = self.P.cmp_word_bp
            if v == 'or':
                if self.P.bp_or <= rbp:
                    break
                self.i += 1
                left = ('or', left, self.expr(self.P.bp_or))
            elif v == 'and':
                if self.P.bp_and <= rbp:
                    break
                self.i += 1
                left = ('and', left, self.expr(self.P.bp_and))
            elif v == 'is':
                if self.P.bp_is <= rbp:
                    break
                self.i += 1
                neg = self.word('not')
                if self.word('null'):
                    left = ('isnull', left, neg)
                elif self.at_word('true') or self.at_word('false') or self.at_word('unknown') or self.at_word('distinct'):
                    raise Unmodelled('IS [NOT] TRUE/FALSE/DISTINCT FROM')
                else:
                    self.fail('expected NULL after IS')
            elif v in ('not', 'in', 'like', 'between'):
                if cbp <= rbp:
                    break
                save = self.i
                neg = False
                if v == 'not':
                    self.i += 1
                    neg = True
                    if not (self.at_word('in') or self.at_word('like') or self.at_word('between')):
                        self.i = save
                        break
                if self.word('in'):
                    left = self.in_rhs(left, neg)
                elif self.word('like'):
                    pat = self.expr(cbp)
                    esc = None
                    if self.word('escape'):
                        esc = self.expr(cbp)
                    left = ('like', left, pat, esc, neg)
                elif self.word('between'):
                    lo = self.expr(cbp)
                    self.need_word('and')
                    hi = self.expr(cbp)
                    left = ('between', left, lo, hi, neg)
            elif v == 'div' and self.P.has_div_operator:
                if 70 <= rbp:
                    break
                self.i += 1
                left = ('bin', 'div', left, self.expr(70))
            elif v in _UNMODELLED_WORDS:
                raise Unmodelled('operator word %s' % v.upper())
            else:
                break
        return left

    def in_rhs(self, left, neg):
        self.need_op('(')
        if self.at_word('select'):
            sub = self.select()
            self.need_op(')')
            return ('in', left, ('sub', sub), neg)
        if self.at_word('values'):
            if not self.P.in_values_syntax:
                self.fail('IN (VALUES ...) is not transcribed for %s' % self.P.name)
            self.i += 1
        items = self.expr_list()
        self.need_op(')')
        return ('in', left, items, neg)

    def type_name(self):
        words = []
        while self.peek()[0] == 'w' and self.peek()[1] not in _CLAUSE_WORDS:
            words.append(self.peek()[1])
            self.i += 1
        if not words:
            self.fail('expected a type name')
        if self.at_op('('):
            depth = 0
            while True:
                k, v = self.peek()
                if k is None:
                    self.fail('unterminated type modifier')
                self.i += 1
                if (k, v) == ('op', '('):
                    depth += 1
                elif (k, v) == ('op', ')'):
                    depth -= 1
                    if depth == 0:
                        break
        return ' '.join(words)

    def prefix(self):
        k, v = self.peek()
        if k is None:
            self.fail('unexpected end of statement')
        if k == 'num':
            self.i += 1
            return ('lit', v)
        if k == 'str':
            self.i += 1
            return ('lit', self.P.string_literal(v))
        if k == 'ph':
            self.i += 1
            if v is None:
                v = self.nph
                self.nph += 1
            return ('ph', v)
        if k == 'id':
            self.i += 1
            if self.at_op('.'):
                if self.peek(1)[0] in ('id', 'w'):
                    self.i += 1
                    col = self.ident()
                    return ('col', v, col)
                self.fail('expected a column name after "."')
            return ('col', None, v)
        if k == 'op':
            if v == '(':
                self.i += 1
                if self.at_word('select'):
                    sub = self.select()
                    self.need_op(')')
                    return ('sub', sub)
                items = self.expr_list()
                self.need_op(')')
                if len(items) == 1:
                    return items[0]
                return ('row', items)
            if v == '-':
                self.i += 1
                return ('neg', self.expr(self.P.bp_unary))
            if v == '+':
                self.i += 1
                return self.expr(self.P.bp_unary)
            if v == '*':
                self.fail('unexpected *')
            self.fail('unexpected %r' % v)
        # words
        if v == 'not':
            self.i += 1
            return ('not', self.expr(self.P.bp_not))
        if v == 'null':
            self.i += 1
            return ('lit', None)
        if v in ('true', 'false'):
            self.i += 1
            return ('lit', self.P.bool_literal(v == 'true'))
        if v == 'exists':
            self.i += 1
            self.need_op('(')
            sub = self.select()
            self.need_op(')')
            return ('exists', sub)
        if v == 'case':
            return self.case()
        if v == 'cast':
            self.i += 1
            self.need_op('(')
            e = self.expr()
            self.need_word('as')
            t = self.type_name()
            self.need_op(')')
            return ('cast', e, t)
        if v == 'row' and self.peek(1) == ('op', '('):
            self.i += 2
            items = self.expr_list()
            self.need_op(')')
            return ('row', items)
        if v == 'rownum' and self.P.has_rownum:
            self.i += 1
            return ('rownum',)
        if v in ('select', ) or v in _CLAUSE_WORDS:
            self.fail('unexpected keyword %s' % v.upper())
        if v in _UNMODELLED_WORDS:
            raise Unmodelled('keyword %s' % v.upper())
        if self.peek(1) == ('op', '('):
            return self.call(v)
        if self.peek(1) == ('op', '.'):
            # bare table alias: t.* is handled in select_item; t."col"
            self.i += 2
            col = self.ident()
            return ('col', self.P.fold_bare(v), col)
        if self.peek(1)[0] == 'str':
            raise Unmodelled('typed literal %s \'...\'' % v.upper())
        self.i += 1
        return ('col', None, self.P.fold_bare(v))

    def case(self):
        self.need_word('case')
        operand = None
        if not self.at_word('when'):
            operand = self.expr()
        whens = []
        while self.word('when'):
            c = self.expr()
            self.need_word('then')
            whens.append((c, self.expr()))
        if not whens:
            self.fail('CASE without WHEN')
        default = None
        if self.word('else'):
            default = self.expr()
        self.need_word('end')
        return ('case', operand, whens, default)

    def call(self, name):
        self.i += 2            # name (
        if name in AGGREGATES or name in ('group_concat', 'string_agg', 'listagg'):
            if name not in AGGREGATES:
                raise Unmodelled('aggregate %s' % name)
            if self.op('*'):
                self.need_op(')')
                if name != 'count':
                    self.fail('%s(*)' % name)
                return ('agg', 'count', None, False)
            distinct = self.word('distinct')
            args = self.expr_list()
            self.need_op(')')
            if name in ('min', 'max') and len(args) > 1 and not distinct:
                return ('func', name, args)        # SQLite's scalar min(a, b) / max(a, b)
            return ('agg', name, args, distinct)
        if name == 'trim':
            # trim([both|leading|trailing] [chars] from str)  |  trim(str [, chars])
            mode = None
            for m in ('both', 'leading', 'trailing'):
                if self.word(m):
                    mode = m
            if mode is not None:
                if not self.P.trim_from_syntax:
                    self.fail('TRIM(%s ... FROM ...) is not transcribed for %s' % (mode.upper(), self.P.name))
                chars = None
                if not self.at_word('from'):
                    chars = self.expr()
                self.need_word('from')
                s = self.expr()
                self.need_op(')')
                return ('func', {'both': 'trim', 'leading': 'ltrim', 'trailing': 'rtrim'}[mode] + '_from', [s] + ([chars] if chars is not None else []))
        if self.op(')'):
            return ('func', name, [])
        args = self.expr_list()
        if self.at_word('from') or self.at_word('for') or self.at_word('separator') or self.at_word('within'):
            raise Unmodelled('%s(... %s ...)' % (name, self.peek()[1].upper()))
        self.need_op(')')
        if self.at_word('within') or self.at_word('over'):
            raise Unmodelled('%s(...) %s' % (name, self.peek()[1].upper()))
        return ('func', name, args)


def parse(sql, P, raw=False):
    return Parser(tokenize(sql, P, raw=raw), P).statement()


def contains_agg(e):
    """does the expression contain an aggregate call of its own query level?"""
    if not isinstance(e, tuple):
        if isinstance(e, list):
            return any(contains_agg(x) for x in e)
        return False
    if not e:
        return False
    if e[0] == 'agg':
        return True
    if e[0] in ('sub', 'exists'):
        return False
    if e[0] == 'in' and isinstance(e[2], tuple) and e[2] and e[2][0] == 'sub':
        return contains_agg(e[1])
    return any(contains_agg(x) for x in e[1:] if isinstance(x, (tuple, list)))


# =====================================================================================================================
# personalities
# =====================================================================================================================
class Row(tuple):
    """a row value"""


class JsonVal(object):
    """a value of the server's JSON type (PostgreSQL jsonb, MySQL / MariaDB JSON): the decoded document"""
    __slots__ = ('value',)

    def __init__(self, value):
        self.value = value

    def key(self):
        def norm(v):
            if isinstance(v, bool) or v is None or isinstance(v, str):
                return v
            if isinstance(v, (int, float)):
                return float(v)          # PG 8.14.4: jsonb numbers compare numerically (1 = 1.0)
            if isinstance(v, list):
                return [norm(x) for x in v]
            return {k: norm(x) for k, x in v.items()}
        return json.dumps(norm(self.value), sort_keys=True)

    def __eq__(self, other):
        return isinstance(other, JsonVal) and self.key() == other.key()

    def __ne__(self, other):
        return not self.__eq__(other)

    def __hash__(self):
        return hash(self.key())

    def __repr__(self):
        return 'JsonVal(%r)' % (self.value,)

    def text(self):
        return json.dumps(self.value)

    def is_number(self):
        return isinstance(self.value, (int, float)) and not isinstance(self.value, bool)


def json_path_get(doc, steps):
    """object key / array index steps; -> (found, value)"""
    for st_ in steps:
        if isinstance(st_, int) and isinstance(doc, list):
            if -len(doc) <= st_ < len(doc):
                doc = doc[st_]
            else:
                return False, None
        elif isinstance(st_, str) and isinstance(doc, dict) and st_ in doc:
            doc = doc[st_]
        else:
            return False, None
    return True, doc


_SIMPLE_KEY = re.compile(r'[A-Za-z_][A-Za-z0-9_]*\Z')


def dollar_path(path):
    """'$.a.b[0]' (SQLite json1 / MySQL / MariaDB path syntax, simple keys only) -> steps"""
    if not isinstance(path, str) or not path.startswith('$'):
        raise Unmodelled('JSON path %r' % (path,))
    steps = []
    i = 1
    while i < len(path):
        m = re.compile(r'\.([A-Za-z_][A-Za-z0-9_]*)|\[(\d+)\]').match(path, i)
        if not m:
            raise Unmodelled('JSON path %r' % (path,))
        steps.append(m.group(1) if m.group(1) is not None else int(m.group(2)))
        i = m.end()
    return steps


def _is_num(v):
    return isinstance(v, (int, float, Decimal)) and not isinstance(v, bool)


def _trunc_div(a, b):
    q = abs(a) // abs(b)
    return q if (a >= 0) == (b >= 0) else -q


class Personality(object):
    name = None
    ident_quote = '"'
    dquote_is_string = False
    backslash_escapes = False
    paramstyle = 'qmark'            # style of pony's text for this provider
    server_paramstyle = 'qmark'     # style of the text that reaches the server (after the driver's client-side formatting)
    has_double_colon_cast = False
    has_rownum = False
    in_values_syntax = False
    trim_from_syntax = True
    empty_string_is_null = False
    has_div_operator = False
    has_rowid = False
    has_json_path_ops = False
    derived_table_needs_alias = False   # sqlite lang_select; PG 16 release notes ("allow subqueries in the FROM clause to omit aliases"); ORA SELECT
    # binding powers
    bp_or, bp_and, bp_not, bp_is, cmp_word_bp, bp_unary = 10, 20, 30, 40, 40, 80
    binop_bp = {'=': 40, '==': 40, '<>': 40, '!=': 40, '<': 42, '<=': 42, '>': 42, '>=': 42,
                '+': 60, '-': 60, '*': 70, '/': 70, '%': 70, '||': 90}
    nulls_first = True              # NULL position in ORDER BY ... ASC

    # ---- lexical
    def fold_bare(self, w):
        return w

    def decimal_literal(self, text):
        return float(text)

    def string_literal(self, s):
        return s

    def bool_literal(self, b):
        return 1 if b else 0

    # ---- truth values
    def from_bool(self, b):
        """representation of a comparison result"""
        return None if b is None else (1 if b else 0)

    def truth(self, v):
        """three-valued truth of a value used as a condition"""
        if v is None:
            return None
        if isinstance(v, bool):
            return v
        if _is_num(v):
            return v != 0
        raise Unmodelled('%s: truth value of %r' % (self.name, v))

    # ---- comparison
    def str_cmp(self, a, b, eq_only=False):
        return (a > b) - (a < b)

    def str_key(self, s):
        """key under which equal strings fall together in DISTINCT / GROUP BY"""
        return s

    def compare(self, a, b, eq_only=False):
        """-1/0/1, or None when an operand is NULL; eq_only: the caller only asks whether the values are equal"""
        if a is None or b is None:
            return None
        if isinstance(a, Row) or isinstance(b, Row):
            return self.compare_rows(a, b)
        if isinstance(a, JsonVal) and isinstance(b, JsonVal):
            if a == b:
                return 0
            if a.is_number() and b.is_number():
                return (a.value > b.value) - (a.value < b.value)
            raise Unmodelled('%s: ordering of JSON values' % self.name)
        if isinstance(a, bool) or isinstance(b, bool):
            return self.compare_bool(a, b)
        if _is_num(a) and _is_num(b):
            return (a > b) - (a < b)
        if isinstance(a, str) and isinstance(b, str):
            return self.str_cmp(a, b, eq_only)
        raise Unmodelled('%s: comparison of %s with %s' % (self.name, type(a).__name__, type(b).__name__))

    def compare_bool(self, a, b):
        raise Unmodelled('%s: boolean operand in a comparison' % self.name)

    def compare_rows(self, a, b):
        raise Unmodelled('%s: row value comparison' % self.name)

    def row_cmp(self, op, a, b):
        """SQL:2003 8.2 row comparison, shared by the dialects that support row values:
        = is the AND of the field equalities, <> its negation, ordering ops are lexicographic; three-valued"""
        if not (isinstance(a, Row) and isinstance(b, Row)) or len(a) != len(b):
            raise ServerError('%s: row values of unequal degree are compared' % self.name)
        if op in ('=', '<>'):
            res = True
            for x, y in zip(a, b):
                c = self.compare(x, y, True)
                r = None if c is None else (c == 0)
                if r is False:
                    res = False
                    break
                if r is None:
                    res = None
            if op == '<>':
                res = None if res is None else (not res)
            return res
        for x, y in zip(a, b):
            c = self.compare(x, y)
            if c is None:
                return None
            if c != 0:
                return {'<': c < 0, '<=': c < 0, '>': c > 0, '>=': c > 0}[op]
        return op in ('<=', '>=')

    # ---- arithmetic
    def arith(self, op, a, b):
        if a is None or b is None:
            return None
        if isinstance(a, bool) or isinstance(b, bool):
            return self.arith_bool(op, a, b)
        if not (_is_num(a) and _is_num(b)):
            raise Unmodelled('%s: %r %s %r' % (self.name, a, op, b))
        if op == '+':
            return a + b
        if op == '-':
            return a - b
        if op == '*':
            return a * b
        if op == '/':
            return self.divide(a, b)
        if op == '%':
            return self.modulo(a, b)
        if op == 'div':
            return self.int_div(a, b)
        raise Unmodelled('%s: operator %s' % (self.name, op))

    def arith_bool(self, op, a, b):
        raise Unmodelled('%s: arithmetic on a boolean' % self.name)

    def divide(self, a, b):
        raise Unmodelled('%s: /' % self.name)

    def modulo(self, a, b):
        raise Unmodelled('%s: %%' % self.name)

    def int_div(self, a, b):
        raise Unmodelled('%s: DIV' % self.name)

    def concat_op(self, a, b):
        raise Unmodelled('%s: ||' % self.name)

    def json_path_op(self, op, a, b):
        raise Unmodelled('%s: %s' % (self.name, op))

    def negate(self, a):
        if a is None:
            return None
        if _is_num(a):
            return -a
        raise Unmodelled('%s: unary minus of %r' % (self.name, a))

    # ---- casts
    def cast(self, v, typ):
        raise Unmodelled('%s: CAST AS %s' % (self.name, typ))

    def _to_int(self, v):
        if v is None:
            return None
        if isinstance(v, bool):
            return int(v)
        if isinstance(v, int):
            return v
        if isinstance(v, str) and re.fullmatch(r'\s*[+-]?\d+\s*', v):
            return int(v)
        raise Unmodelled('%s: cast of %r to integer' % (self.name, v))

    def _to_text(self, v):
        if v is None:
            return None
        if isinstance(v, str):
            return v
        if isinstance(v, int) and not isinstance(v, bool):
            return str(v)
        raise Unmodelled('%s: cast of %r to text' % (self.name, v))

    # ---- LIMIT
    def limit_value(self, operand, what):
        """-> int or None (= no limit / no offset)"""
        raise NotImplementedError

    # ---- functions: name -> method fn_<name>(args)
    def call(self, name, args):
        fn = getattr(self, 'fn_' + name, None)
        if fn is None:
            raise Unmodelled('%s: function %s()' % (self.name, name))
        return fn(*args)

    @staticmethod
    def _str_args(name, *vals):
        for v in vals:
            if v is not None and not isinstance(v, str):
                raise Unmodelled('%s() applied to non-string %r' % (name, v))

    @staticmethod
    def _int_args(name, *vals):
        for v in vals:
            if v is not None and (not isinstance(v, int) or isinstance(v, bool)):
                raise Unmodelled('%s() position/length operand %r' % (name, v))

    def fn_coalesce(self, *args):
        # SQL-92 6.9 / PG 9.18.2 / MY 12.4.2 / sqlite lang_corefunc: first non-NULL argument
        if len(args) < 2:
            raise ServerError('coalesce() needs two arguments')
        self.check_common_type('COALESCE', args)
        for a in args:
            if a is not None:
                return a
        return None

    def check_common_type(self, what, args):
        pass

    def fn_abs(self, a):
        if a is None:
            return None
        if not _is_num(a):
            raise Unmodelled('abs(%r)' % (a,))
        return abs(a)

    def fn_replace(self, s, a, b):
        # PG 9.4 replace / MY 12.8 REPLACE / sqlite replace(X,Y,Z): every occurrence; NULL if any argument is NULL
        self._str_args('replace', s, a, b)
        if s is None or a is None or b is None:
            return None
        if a == '':
            return s
        return s.replace(a, b)

    # LIKE: SQL-92 8.5: % any sequence, _ any one character, ESCAPE c makes the next character literal
    def like(self, s, pat, esc):
        if s is None or pat is None:
            return None
        self._str_args('LIKE', s, pat, esc)
        if esc is None:
            esc = self.default_like_escape
        elif len(esc) != 1:
            raise ServerError('%s: ESCAPE must be one character' % self.name)
        return self.like_match(s, self.like_regex(pat, esc))

    default_like_escape = None

    def like_regex(self, pat, esc):
        out = []
        i = 0
        while i < len(pat):
            c = pat[i]
            if esc is not None and c == esc:
                if i + 1 >= len(pat):
                    return self.like_dangling_escape(out, c)
                out.append(re.escape(pat[i + 1]))
                i += 2
                continue
            if c == '%':
                out.append('.*')
            elif c == '_':
                out.append('.')
            else:
                out.append(re.escape(c))
            i += 1
        return ''.join(out)

    def like_dangling_escape(self, out, c):
        raise Unmodelled('%s: LIKE pattern ends with the escape character' % self.name)

    def like_match(self, s, regex):
        return re.fullmatch(regex, s, re.S) is not None


class SqlitePersonality(Personality):
    """SQLite 3.40 as configured by pony (PRAGMA case_sensitive_like = true; UDFs py_upper, py_lower, py_string_slice).
    Not trusted text: validated against the live library on every case."""
    name = 'sqlite'
    has_rowid = True
    in_values_syntax = True
    trim_from_syntax = False
    nulls_first = True

    def limit_value(self, operand, what):
        # lang_select.html: a negative LIMIT means no upper bound; a negative OFFSET is zero
        if operand[0] == 'num':
            return operand[1]
        if operand[0] == 'neg':
            return None if what == 'limit' else 0
        raise Unmodelled('sqlite: LIMIT %r' % (operand,))

    def divide(self, a, b):       # lang_expr.html: integer / integer truncates; division by zero gives NULL
        if b == 0:
            return None
        if isinstance(a, int) and isinstance(b, int):
            return _trunc_div(a, b)
        return a / b

    def modulo(self, a, b):       # lang_expr.html: % casts to integer; result has the sign of the left operand
        if not (isinstance(a, int) and isinstance(b, int)):
            raise Unmodelled('sqlite: % on non-integers')
        if b == 0:
            return None
        return a - b * _trunc_div(a, b)

    def concat_op(self, a, b):
        if a is None or b is None:
            return None
        return self._to_text(a) + self._to_text(b)

    def cast(self, v, typ):
        if typ in ('integer', 'int'):
            return self._to_int(v)
        if typ == 'text':
            return self._to_text(v)
        raise Unmodelled('sqlite: CAST AS %s' % typ)

    def fn_length(self, s):
        self._str_args('length', s)
        return None if s is None else len(s)

    def fn_upper(self, s):        # built-in upper(): ASCII letters only
        self._str_args('upper', s)
        return None if s is None else ''.join(c.upper() if 'a' <= c <= 'z' else c for c in s)

    def fn_lower(self, s):
        self._str_args('lower', s)
        return None if s is None else ''.join(c.lower() if 'A' <= c <= 'Z' else c for c in s)

    def fn_py_upper(self, s):     # pony/orm/dbproviders/sqlite.py: make_string_function('py_upper', str.upper)
        self._str_args('py_upper', s)
        return None if s is None else s.upper()

    def fn_py_lower(self, s):
        self._str_args('py_lower', s)
        return None if s is None else s.lower()

    def fn_py_string_slice(self, s, start, end):   # pony/orm/dbproviders/sqlite.py: py_string_slice
        self._str_args('py_string_slice', s)
        self._int_args('py_string_slice', start, end)
        return None if s is None else s[start:end]

    def _trim(self, name, s, chars, left, right):
        self._str_args(name, s, chars)
        if s is None or (chars is None):
            return None
        if left:
            s = s.lstrip(chars)
        if right:
            s = s.rstrip(chars)
        return s

    def fn_trim(self, s, chars=' '):
        return self._trim('trim', s, chars, True, True)

    def fn_ltrim(self, s, chars=' '):
        return self._trim('ltrim', s, chars, True, False)

    def fn_rtrim(self, s, chars=' '):
        return self._trim('rtrim', s, chars, False, True)

    def fn_substr(self, s, y, z=Ellipsis):
        # func.c substrFunc
        self._str_args('substr', s)
        self._int_args('substr', y, None if z is Ellipsis else z)
        if s is None or y is None or z is None:
            return None
        n = len(s)
        p1 = y
        neg2 = False
        if z is Ellipsis:
            p2 = 1 << 40
        else:
            p2 = z
            if p2 < 0:
                p2 = -p2
                neg2 = True
        if p1 < 0:
            p1 += n
            if p1 < 0:
                p2 += p1
                if p2 < 0:
                    p2 = 0
                p1 = 0
        elif p1 > 0:
            p1 -= 1
        elif p2 > 0:
            p2 -= 1
        if neg2:
            p1 -= p2
            if p1 < 0:
                p2 += p1
                p1 = 0
        return s[p1:p1 + p2]

    def fn_json_extract(self, doc, *paths):
        # json1.html json_extract(X,P1,P2,...): one path: SQL NULL / INTEGER / REAL / TEXT for null / true,false,numbers / strings,
        # minified JSON text for arrays and objects; several paths: a JSON array text of the values
        if doc is None or any(p is None for p in paths):
            return None
        self._str_args('json_extract', doc)
        obj = json.loads(doc)
        vals = []
        for p in paths:
            found, v = json_path_get(obj, dollar_path(p))
            vals.append(v if found else None)
        if len(paths) != 1:
            return json.dumps(vals, separators=(',', ':'))
        v = vals[0]
        if isinstance(v, bool):
            return int(v)
        if isinstance(v, (list, dict)):
            return json.dumps(v, separators=(',', ':'))
        return v

    def fn_py_json_unwrap(self, value):        # pony/orm/dbproviders/sqlite.py: py_json_unwrap
        if isinstance(value, str) and value.startswith('[null,'):
            return value[6:-1]
        return None

    def fn_min(self, *args):      # scalar min(X,Y,...): NULL if any argument is NULL
        return self._extreme(args, -1)

    def fn_max(self, *args):
        return self._extreme(args, 1)

    def _extreme(self, args, sign):
        if any(a is None for a in args):
            return None
        best = args[0]
        for a in args[1:]:
            c = self.compare(a, best)
            if c * sign > 0:
                best = a
        return best


class PostgresPersonality(Personality):
    """PostgreSQL 16 (psycopg2: the statement reaches the server with the arguments already formatted into the text).
    Assumptions: standard_conforming_strings = on (PG 4.1.2.1), database collation "C" (PG 24.2) so that text is ordered
    by code point."""
    name = 'postgres'
    paramstyle = 'pyformat'
    server_paramstyle = 'dollar'
    has_double_colon_cast = True
    nulls_first = False           # PG 7.5: "By default, null values sort as if larger than any non-null value"
    default_like_escape = '\\'    # PG 9.7.1: "The default escape character is the backslash"
    # PG 4.1.6 table 4.2 operator precedence: * / %  >  + -  >  any other operator (||)  >  BETWEEN IN LIKE  >  < > = <= >= <>  >  IS
    bp_is, cmp_word_bp = 38, 45
    binop_bp = {'=': 40, '<>': 40, '!=': 40, '<': 40, '<=': 40, '>': 40, '>=': 40,
                '||': 50, '+': 60, '-': 60, '*': 70, '/': 70, '%': 70, '::': 100}

    has_json_path_ops = True
    binop_bp = dict(binop_bp)
    binop_bp.update({'#>': 50, '#>>': 50})     # PG 4.1.6: "any other operator"

    def json_path_op(self, op, a, b):
        # PG 9.16 table 9.45: jsonb #> text[] -> jsonb "extracts JSON sub-object at the specified path"; #>> "... as text";
        # NULL when the path does not exist; #>> of a JSON null is SQL NULL, of a string its content, otherwise the JSON text
        if a is None or b is None:
            return None
        if not isinstance(a, JsonVal) or not isinstance(b, str):
            raise Unmodelled('postgres: %s applied to %s, %s' % (op, type(a).__name__, type(b).__name__))
        # PG 8.15.2 array input syntax, simplest form only: {elem,elem}
        if not re.fullmatch(r'\{[A-Za-z0-9_]*(,[A-Za-z0-9_]+)*\}', b):
            raise Unmodelled('postgres: path array literal %r' % (b,))
        steps = [x for x in b[1:-1].split(',')] if b != '{}' else []
        doc = a.value
        for st_ in steps:
            if isinstance(doc, list) and re.fullmatch(r'-?\d+', st_):
                found, doc = json_path_get(doc, [int(st_)])
            elif isinstance(doc, dict):
                found, doc = json_path_get(doc, [st_])
            else:
                found = False
            if not found:
                return None
        if op == '#>':
            return JsonVal(doc)
        if doc is None:
            return None
        if isinstance(doc, str):
            return doc
        return JsonVal(doc).text() if not isinstance(doc, bool) else ('true' if doc else 'false')

    def fold_bare(self, w):
        return w.lower()          # PG 4.1.1: unquoted names are folded to lower case

    def decimal_literal(self, text):
        return Decimal(text)      # PG 4.1.2.6: a constant with a decimal point is numeric

    def bool_literal(self, b):
        return bool(b)

    def from_bool(self, b):
        return b

    def truth(self, v):
        # PG 8.6 + 4.2: WHERE / AND / OR / NOT / CASE WHEN take boolean; there is no implicit cast integer -> boolean (pg_cast: explicit)
        if v is None:
            return None
        if isinstance(v, bool):
            return v
        raise ServerError('postgres: argument of a condition must be type boolean, got %s %r' % (type(v).__name__, v))

    def compare_bool(self, a, b):
        if isinstance(a, bool) and isinstance(b, bool):
            return (a > b) - (a < b)     # PG 8.6: false < true
        # PG 10.2: no operator boolean = integer, no implicit cast between them
        raise ServerError('postgres: operator does not exist: %s = %s' % (_pgtype(a), _pgtype(b)))

    def compare_rows(self, a, b):
        raise Unmodelled('postgres: compare_rows is dispatched through row_cmp')

    def arith_bool(self, op, a, b):
        raise ServerError('postgres: operator does not exist: %s %s %s' % (_pgtype(a), op, _pgtype(b)))

    def check_common_type(self, what, args):
        # PG 10.5 UNION, CASE and related constructs: boolean and numeric inputs have no common type
        kinds = set('boolean' if isinstance(a, bool) else 'numeric' if _is_num(a) else 'jsonb' if isinstance(a, JsonVal) else 'text'
                    for a in args if a is not None)
        if 'boolean' in kinds and len(kinds) > 1:
            raise ServerError('postgres: %s types %s cannot be matched' % (what, ' and '.join(sorted(kinds))))

    def limit_value(self, operand, what):
        # PG 7.6 / SELECT: "LIMIT ALL is the same as omitting the LIMIT clause, as is LIMIT with a NULL argument";
        # a negative LIMIT / OFFSET is an error
        if operand[0] == 'num':
            return operand[1]
        if operand[0] in ('null', 'all'):
            return None
        if operand[0] == 'neg':
            raise ServerError('postgres: %s must not be negative' % what.upper())
        raise Unmodelled('postgres: LIMIT %r' % (operand,))

    def divide(self, a, b):
        # PG 9.3 table 9.4: "for integral types, division truncates the result towards zero"; division by zero is an error
        if b == 0:
            raise Unmodelled('postgres: division by zero raises an error (Python raises too: unspecified)')
        if isinstance(a, int) and isinstance(b, int):
            return _trunc_div(a, b)
        raise Unmodelled('postgres: non-integer division')

    def modulo(self, a, b):
        # PG 9.3 table 9.4: "% modulo (remainder)"; result takes the sign of the dividend (truncating division)
        if b == 0:
            raise Unmodelled('postgres: division by zero raises an error')
        if isinstance(a, int) and isinstance(b, int):
            return a - b * _trunc_div(a, b)
        raise Unmodelled('postgres: non-integer %')

    def concat_op(self, a, b):
        # PG 9.4: text || text -> text; NULL if either is NULL; text || anynonarray converts the other input to text
        if isinstance(a, bool) or isinstance(b, bool):
            raise Unmodelled('postgres: boolean || ...')
        if a is None or b is None:
            return None
        if not isinstance(a, str) and not isinstance(b, str):
            raise ServerError('postgres: operator does not exist: integer || integer')
        return self._to_text(a) + self._to_text(b)

    def cast(self, v, typ):
        # PG 9.? / 8.6: boolean casts to integer as 1 / 0 (explicit cast only); integer -> text is its decimal spelling
        if typ in ('int', 'integer', 'int4', 'bigint'):
            return self._to_int(v)
        if typ == 'text':
            if isinstance(v, bool):
                return 'true' if v else 'false'     # PG 8.6
            return self._to_text(v)
        if typ in ('jsonb', 'json'):
            # PG 8.14: a string literal cast to jsonb is parsed as JSON text
            if v is None or isinstance(v, JsonVal):
                return v
            if isinstance(v, str):
                try:
                    return JsonVal(json.loads(v))
                except ValueError:
                    raise ServerError('postgres: invalid input syntax for type json: %r' % (v,))
            raise Unmodelled('postgres: cast of %r to jsonb' % (v,))
        if typ in ('boolean', 'bool'):
            if v is None or isinstance(v, bool):
                return v
            if isinstance(v, int):
                return v != 0                        # PG: explicit cast int4 -> bool
            raise Unmodelled('postgres: cast %r to boolean' % (v,))
        raise Unmodelled('postgres: CAST AS %s' % typ)

    def fn_length(self, s):       # PG 9.4: length(text) -> number of characters
        self._str_args('length', s)
        return None if s is None else len(s)

    fn_char_length = fn_length

    def fn_upper(self, s):        # PG 9.4: upper / lower "according to the rules of the database's locale" (ASCII domain)
        self._str_args('upper', s)
        _ascii_only(s)
        return None if s is None else s.upper()

    def fn_lower(self, s):
        self._str_args('lower', s)
        _ascii_only(s)
        return None if s is None else s.lower()

    def _trim(self, name, s, chars, left, right):
        # PG 9.4: btrim / ltrim / rtrim(string [, characters]) remove the longest string containing only characters
        # in `characters` (a space by default); trim(string [, characters]) is the non-standard spelling of btrim
        self._str_args(name, s, chars)
        if s is None or chars is None:
            return None
        if left:
            s = s.lstrip(chars) if chars else s
        if right:
            s = s.rstrip(chars) if chars else s
        return s

    def fn_trim(self, s, chars=' '):
        return self._trim('trim', s, chars, True, True)

    fn_btrim = fn_trim
    fn_trim_from = fn_trim

    def fn_ltrim(self, s, chars=' '):
        return self._trim('ltrim', s, chars, True, False)

    fn_ltrim_from = fn_ltrim

    def fn_rtrim(self, s, chars=' '):
        return self._trim('rtrim', s, chars, False, True)

    fn_rtrim_from = fn_rtrim

    def fn_substr(self, s, start, count=Ellipsis):
        # PG 9.4: substr(string, start [, count]) = substring(string from start for count): SQL-92 6.7: the result are the
        # characters at positions p with start <= p < start + count and 1 <= p <= length; a negative count is an error
        self._str_args('substr', s)
        self._int_args('substr', start, None if count is Ellipsis else count)
        if s is None or start is None or count is None:
            return None
        n = len(s)
        if count is Ellipsis:
            lo = max(start, 1)
            return s[lo - 1:]
        if count < 0:
            raise ServerError('postgres: negative substring length not allowed')
        end = start + count          # exclusive
        lo = max(start, 1)
        hi = min(end, n + 1)
        if hi <= lo:
            return ''
        return s[lo - 1:hi - 1]

    fn_substring = fn_substr

    def fn_greatest(self, *args):
        # PG 9.18.4: "NULL values in the argument list are ignored. The result will be NULL only if all the expressions evaluate to NULL"
        return self._extreme(args, 1)

    def fn_least(self, *args):
        return self._extreme(args, -1)

    def _extreme(self, args, sign):
        self.check_common_type('GREATEST/LEAST', args)
        vals = [a for a in args if a is not None]
        if not vals:
            return None
        best = vals[0]
        for a in vals[1:]:
            if self.compare(a, best) * sign > 0:
                best = a
        return best


def _pgtype(v):
    return 'boolean' if isinstance(v, bool) else 'integer' if isinstance(v, int) else 'text' if isinstance(v, str) else type(v).__name__


def _ascii_only(s):
    if s is not None and any(ord(c) > 127 for c in s):
        raise Unmodelled('non-ASCII text in a locale dependent function')


class MySQLPersonality(Personality):
    """MariaDB 10.11 / MySQL 8.0, default sql_mode (no ANSI_QUOTES, no PIPES_AS_CONCAT, no NO_BACKSLASH_ESCAPES), character set
    utf8 with its default collation utf8_general_ci: case-insensitive, PAD SPACE (MY 10.8.5 / KB "Character Sets and Collations").
    Every string comparison is evaluated under that collation AND in binary; when the two answers differ the case is outside
    the domain every backend compares exactly => CollationSensitive."""
    name = 'mysql'
    ident_quote = '`'
    dquote_is_string = True       # MY 9.1.1: "a string is a sequence of characters within single or double quotes"
    backslash_escapes = True      # MY 9.1.1 table of escape sequences
    paramstyle = 'format'
    server_paramstyle = 'qmark'
    nulls_first = True            # MY 8.2.1.16 ORDER BY: "NULL values are presented first if you do ORDER BY ... ASC"
    default_like_escape = '\\'    # MY 12.8.1: "If you do not specify the ESCAPE character, \ is assumed"
    derived_table_needs_alias = True    # MY 13.2.15.8 Derived Tables: "Every derived table must have its own alias"
    # MY 12.4.1 operator precedence: ... * / % > + - > comparison > BETWEEN > NOT > AND > OR, ||
    binop_bp = {'=': 40, '<>': 40, '!=': 40, '<': 40, '<=': 40, '>': 40, '>=': 40,
                '+': 60, '-': 60, '*': 70, '/': 70, '%': 70, '||': 10}

    def decimal_literal(self, text):
        return Decimal(text)      # MY 9.1.2: exact-value literal

    def bool_literal(self, b):
        return 1 if b else 0      # MY 9.1.6: TRUE and FALSE evaluate to 1 and 0

    def _ci(self, s):
        return s.rstrip(' ').upper()

    def str_cmp(self, a, b, eq_only=False):
        _ascii_only(a)
        _ascii_only(b)
        x, y = self._ci(a), self._ci(b)
        ci = (x > y) - (x < y)
        bi = (a > b) - (a < b)
        if eq_only and (ci == 0) == (bi == 0):
            return bi
        if ci != bi:
            raise CollationSensitive('mysql: %r vs %r compare as %d under utf8_general_ci (PAD SPACE) but %d in binary' % (a, b, ci, bi))
        return bi

    def str_key(self, s):
        return s                  # equal keys <=> binary equal; ci-equal but different strings are caught in distinct_keys()

    def truth(self, v):
        if isinstance(v, str):
            raise Unmodelled('mysql: string used as a truth value')
        return Personality.truth(self, v)

    def limit_value(self, operand, what):
        # MY 13.2.13 SELECT: "LIMIT takes one or two numeric arguments, which must both be nonnegative integer constants";
        # "To retrieve all rows from a certain offset up to the end of the result set, you can use some large number"
        if operand[0] == 'num':
            if operand[1] > 18446744073709551615:
                raise ServerError('mysql: LIMIT operand %d exceeds BIGINT UNSIGNED' % operand[1])
            return operand[1]
        raise ServerError('mysql: LIMIT/OFFSET operand must be a nonnegative integer constant, got %r' % (operand,))

    def divide(self, a, b):
        # MY 12.6.1: "/ Division"; "Division by zero produces a NULL result"; 12.25.3: for exact-value operands the result is DECIMAL
        # with scale = scale of the first operand + div_precision_increment (4)
        if b == 0:
            return None
        if isinstance(a, int) and isinstance(b, int):
            q = Decimal(a) / Decimal(b)
            return q.quantize(Decimal('0.0001'), rounding=decimal.ROUND_HALF_UP)
        raise Unmodelled('mysql: non-integer division')

    def modulo(self, a, b):
        # MY 12.6.2 MOD(N,M), N % M: "returns the remainder of N divided by M"; MOD(N,0) returns NULL; sign follows N
        if b == 0:
            return None
        if isinstance(a, int) and isinstance(b, int):
            return a - b * _trunc_div(a, b)
        raise Unmodelled('mysql: non-integer %')

    has_div_operator = True

    def int_div(self, a, b):
        # MY 12.6.1 DIV: "Integer division. Discards from the division result any fractional part to the right of the decimal
        # point"; division by zero gives NULL
        if b == 0:
            return None
        if isinstance(a, int) and isinstance(b, int):
            return _trunc_div(a, b)
        raise Unmodelled('mysql: DIV on non-integers')

    def concat_op(self, a, b):
        # MY 12.4.3: "OR, ||  Logical OR" (|| concatenates only under sql_mode PIPES_AS_CONCAT)
        if isinstance(a, str) or isinstance(b, str):
            raise Unmodelled('mysql: || is logical OR; string operand converted to a number')
        x, y = self.truth(a), self.truth(b)
        if x is True or y is True:
            return 1
        if x is None or y is None:
            return None
        return 0

    def cast(self, v, typ):
        # MY 12.10 CAST: SIGNED [INTEGER], CHAR
        if isinstance(v, JsonVal):
            # MY 12.10 / 12.18: CAST(json AS CHAR) is the serialized JSON text; CAST(json number AS SIGNED) its value
            if typ == 'char':
                return v.text()
            if typ in ('signed', 'signed integer') and isinstance(v.value, int) and not isinstance(v.value, bool):
                return v.value
            raise Unmodelled('mysql: CAST(JSON %r AS %s)' % (v.value, typ))
        if typ in ('signed', 'signed integer'):
            return self._to_int(v)
        if typ == 'char':
            return self._to_text(v)
        if typ in ('integer', 'int', 'text'):
            raise ServerError('mysql: CAST(... AS %s) is not a valid cast target (MY 12.10)' % typ.upper())
        raise Unmodelled('mysql: CAST AS %s' % typ)

    def fn_length(self, s):       # MY 12.8 LENGTH(str): "the length of the string str, measured in bytes"
        self._str_args('length', s)
        return None if s is None else len(s.encode('utf8'))

    def fn_char_length(self, s):  # MY 12.8 CHAR_LENGTH(str): "measured in code points"
        self._str_args('char_length', s)
        return None if s is None else len(s)

    fn_character_length = fn_char_length

    def fn_upper(self, s):        # MY 12.8 UPPER / LOWER according to the current character set mapping (ASCII domain)
        self._str_args('upper', s)
        _ascii_only(s)
        return None if s is None else s.upper()

    fn_ucase = fn_upper

    def fn_lower(self, s):
        self._str_args('lower', s)
        _ascii_only(s)
        return None if s is None else s.lower()

    fn_lcase = fn_lower

    def fn_json_extract(self, doc, path):
        # MY 12.18.3 / KB JSON_EXTRACT(json_doc, path): the data selected by the path; NULL if an argument is NULL or the path
        # does not locate a value
        if doc is None or path is None:
            return None
        if isinstance(doc, str):
            doc = JsonVal(json.loads(doc))
        if not isinstance(doc, JsonVal):
            raise Unmodelled('mysql: json_extract of %r' % (doc,))
        found, v = json_path_get(doc.value, dollar_path(path))
        return JsonVal(v) if found else None

    def fn_json_unquote(self, v):
        # MY 12.18.4 JSON_UNQUOTE: "Unquotes JSON value and returns the result as a utf8mb4 string"
        if v is None:
            return None
        if isinstance(v, JsonVal):
            return v.value if isinstance(v.value, str) else v.text()
        if isinstance(v, str):
            return v
        raise Unmodelled('mysql: json_unquote of %r' % (v,))

    def fn_concat(self, *args):   # MY 12.8 CONCAT: "returns NULL if any argument is NULL"; numeric arguments are converted to strings
        if not args:
            raise ServerError('mysql: CONCAT() needs an argument')
        if any(a is None for a in args):
            return None
        return ''.join(self._to_text(a) for a in args)

    # MY 12.8 TRIM([{BOTH | LEADING | TRAILING} [remstr] FROM] str): "all remstr prefixes or suffixes removed" (remstr is ONE string,
    # not a character set; spaces if omitted); LTRIM / RTRIM(str) remove spaces
    def _trim(self, name, s, rem, left, right):
        self._str_args(name, s, rem)
        if s is None or rem is None:
            return None
        if rem == '':
            return s
        if left:
            while s.startswith(rem):
                s = s[len(rem):]
        if right:
            while s.endswith(rem):
                s = s[:-len(rem)]
        return s

    def fn_trim(self, s):
        return self._trim('trim', s, ' ', True, True)

    def fn_ltrim(self, s):
        return self._trim('ltrim', s, ' ', True, False)

    def fn_rtrim(self, s):
        return self._trim('rtrim', s, ' ', False, True)

    def fn_trim_from(self, s, rem=' '):
        return self._trim('trim', s, rem, True, True)

    def fn_ltrim_from(self, s, rem=' '):
        return self._trim('trim', s, rem, True, False)

    def fn_rtrim_from(self, s, rem=' '):
        return self._trim('trim', s, rem, False, True)

    def fn_substr(self, s, pos, ln=Ellipsis):
        # MY 12.8 SUBSTRING(str,pos[,len]) (SUBSTR is a synonym): first position is 1; "It is also possible to use a negative value
        # for pos. In this case, the beginning of the substring is pos characters from the end of the string"; "If len is less
        # than 1, the result is the empty string".  pos = 0 and a pos outside the string give the empty string
        # (Item_func_substr::val_str: start < 0 || start + 1 > length => empty result).
        self._str_args('substr', s)
        self._int_args('substr', pos, None if ln is Ellipsis else ln)
        if s is None or pos is None or ln is None:
            return None
        n = len(s)
        if ln is not Ellipsis and ln < 1:
            return ''
        start = n + pos if pos < 0 else pos - 1
        if start < 0 or start + 1 > n:
            return ''
        return s[start:] if ln is Ellipsis else s[start:start + ln]

    fn_substring = fn_substr
    fn_mid = fn_substr

    def fn_greatest(self, *args):
        # MY 12.4.2 / KB GREATEST: "returns NULL if any argument is NULL"
        return self._extreme(args, 1)

    def fn_least(self, *args):
        return self._extreme(args, -1)

    def _extreme(self, args, sign):
        if len(args) < 2:
            raise ServerError('mysql: GREATEST/LEAST need two arguments')
        if any(a is None for a in args):
            return None
        best = args[0]
        for a in args[1:]:
            if self.compare(a, best) * sign > 0:
                best = a
        return best

    def like_match(self, s, regex):
        # MY 12.8.1 LIKE: per-character comparison under the collation (case-insensitive for utf8_general_ci); trailing spaces
        # are significant.  A dangling escape character matches itself.
        _ascii_only(s)
        cs = re.fullmatch(regex, s, re.S) is not None
        ci = re.fullmatch(regex, s, re.S | re.I) is not None
        if cs != ci:
            raise CollationSensitive('mysql: %r LIKE /%s/ is %s under utf8_general_ci but %s in binary' % (s, regex, ci, cs))
        return cs

    def like_dangling_escape(self, out, c):
        out.append(re.escape(c))
        return ''.join(out)


class OraclePersonality(Personality):
    """Oracle 19c, only as far as pony's ROWNUM paging wrapper needs it (C02 text level) and for SUBSTR / LENGTH (C25).
    ORA SQL Language Reference: "Nulls": a character value with a length of zero is NULL."""
    name = 'oracle'
    has_rowid = True
    paramstyle = 'named'
    server_paramstyle = 'named'
    has_rownum = True
    trim_from_syntax = True
    empty_string_is_null = True
    nulls_first = False           # ORA ORDER BY: NULLS LAST is the default for ascending order

    def fold_bare(self, w):
        return w.upper()          # ORA "Database Object Naming Rules": nonquoted identifiers are not case sensitive, stored upper case

    def string_literal(self, s):
        return None if s == '' else s

    def limit_value(self, operand, what):
        raise SqlSyntaxError('oracle: LIMIT is not Oracle syntax')

    def concat_op(self, a, b):
        # ORA "Concatenation Operator": "concatenating a zero-length character string with another operand always results in the
        # other operand"; NULL only if both are NULL
        if a is None and b is None:
            return None
        r = (self._to_text(a) if a is not None else '') + (self._to_text(b) if b is not None else '')
        return r or None

    def fn_length(self, s):       # ORA LENGTH: "If char is null, then this function returns null" (and '' is null)
        self._str_args('length', s)
        return None if not s else len(s)

    def fn_upper(self, s):
        self._str_args('upper', s)
        _ascii_only(s)
        return None if not s else s.upper()

    def fn_lower(self, s):
        self._str_args('lower', s)
        _ascii_only(s)
        return None if not s else s.lower()

    def fn_nvl(self, a, b):
        return a if a is not None else b

    def fn_substr(self, s, pos, ln=Ellipsis):
        # ORA SUBSTR(char, position [, substring_length]): "If position is 0, then it is treated as 1. If position is positive,
        # then Oracle Database counts from the beginning of char to find the first character. If position is negative, then Oracle
        # counts backward from the end of char. If substring_length is omitted, then Oracle returns all characters to the end of
        # char. If substring_length is less than 1, then Oracle returns null."  A position beyond either end gives null.
        self._str_args('substr', s)
        self._int_args('substr', pos, None if ln is Ellipsis else ln)
        if not s or pos is None or ln is None:
            return None
        n = len(s)
        if ln is not Ellipsis and ln < 1:
            return None
        if pos == 0:
            pos = 1
        start = n + pos if pos < 0 else pos - 1
        if start < 0 or start >= n:
            return None
        r = s[start:] if ln is Ellipsis else s[start:start + ln]
        return r or None

    def fn_greatest(self, *args):  # ORA GREATEST / LEAST: null if any argument is null
        if any(a is None for a in args):
            return None
        best = args[0]
        for a in args[1:]:
            if self.compare(a, best) > 0:
                best = a
        return best

    def fn_least(self, *args):
        if any(a is None for a in args):
            return None
        best = args[0]
        for a in args[1:]:
            if self.compare(a, best) < 0:
                best = a
        return best


PERSONALITIES = {'sqlite': SqlitePersonality(), 'postgres': PostgresPersonality(), 'mysql': MySQLPersonality(),
                 'oracle': OraclePersonality()}
PERSONALITIES['cockroach'] = PERSONALITIES['postgres']      # lexically identical as far as pony's CRSQLBuilder goes


# =====================================================================================================================
# executor
# =====================================================================================================================
class Scope(object):
    __slots__ = ('parent', 'tables', 'rownum')

    def __init__(self, parent, tables):
        self.parent = parent
        self.tables = tables          # list of (alias, {col: index}, row tuple or None for the NULL row of a LEFT JOIN)
        self.rownum = None

    def extend(self, alias, colmap, row):
        s = Scope(self.parent, self.tables + [(alias, colmap, row)])
        return s

    def lookup(self, table, col):
        s = self
        while s is not None:
            found = []
            for alias, colmap, row in s.tables:
                if table is not None and alias != table:
                    continue
                idx = colmap.get(col)
                if idx is not None:
                    found.append(None if row is None else row[idx])
                elif table is not None:
                    raise SqlSyntaxError('no column %r in %r' % (col, table))
            if len(found) == 1:
                return found[0]
            if len(found) > 1:
                raise SqlSyntaxError('ambiguous column %r' % (col,))
            s = s.parent
        raise SqlSyntaxError('unknown column %s' % ('.'.join(x for x in (table, col) if x)))


class Engine(object):
    """tables: {name: (column names, [row tuples])}"""

    def __init__(self, personality, tables):
        self.P = PERSONALITIES[personality] if isinstance(personality, str) else personality
        self.tables = tables
        self.params = None
        self.stats = {}

    # ---- entry points
    def run(self, sql, params=None, raw=False):
        """-> (column names, rows)"""
        ast = parse(sql, self.P, raw=raw)
        self.params = params
        return self.select(ast, None)

    def eval_scalar(self, sql_expr, params=None, raw=False, row=None):
        """evaluate one expression text (no FROM); row = {column name: value} for bare/qualified column references"""
        toks = tokenize(sql_expr, self.P, raw=raw)
        p = Parser(toks, self.P)
        e = p.expr()
        if p.i != len(toks):
            p.fail('trailing tokens after the expression')
        self.params = params
        scope = None
        if row is not None:
            names = list(row)
            scope = Scope(None, [(None, {n: i for i, n in enumerate(names)}, tuple(row[n] for n in names))])
        return self.ev(e, scope, None)

    # ---- SELECT
    def table_rows(self, name):
        t = self.tables.get(name)
        if t is None:
            for k in self.tables:      # MY 9.2.3: table names are case-insensitive on some platforms; match exactly first
                if k.lower() == name.lower() and self.P.name == 'mysql':
                    t = self.tables[k]
            if t is None:
                raise SqlSyntaxError('no such table: %r' % (name,))
        return t

    def select(self, sel, outer):
        P = self.P
        # 1. FROM
        scopes = [Scope(outer, [])]
        for src in sel['from']:
            if src['table'] is not None:
                cols, rows = self.table_rows(src['table'])
            else:
                cols, rows = self.select(src['sub'], outer)
                if len(set(cols)) != len(cols):
                    cols = [c if cols.count(c) == 1 or cols.index(c) == i else None for i, c in enumerate(cols)]
            colmap = {c: i for i, c in enumerate(cols) if c is not None}
            if P.has_rowid and src['table'] is not None and 'ROWID' not in colmap:
                # sqlite lang_createtable.html#rowid / ORA "ROWID Pseudocolumn": every row of a table has an identity that is
                # unique within the table; only its distinctness is modelled (it must not be selected)
                rows = [tuple(r) + (i + 1,) for i, r in enumerate(rows)]
                colmap['ROWID'] = colmap['rowid'] = len(cols)
            if P.empty_string_is_null:
                rows = [tuple(None if v == '' else v for v in r) for r in rows]
            alias = src['alias']
            new = []
            for s in scopes:
                matched = False
                for r in rows:
                    s2 = s.extend(alias, colmap, r)
                    if src['on'] is not None and P.truth(self.ev(src['on'], s2, None)) is not True:
                        continue
                    matched = True
                    new.append(s2)
                if src['join'] == 'left' and not matched:
                    new.append(s.extend(alias, colmap, None))
            scopes = new
        # 2. WHERE (Oracle: ROWNUM is assigned to the rows that pass, in order)
        if sel['where'] is not None or P.has_rownum:
            kept = []
            for s in scopes:
                s.rownum = len(kept) + 1
                if sel['where'] is None or P.truth(self.ev(sel['where'], s, None)) is True:
                    kept.append(s)
            scopes = kept
        # 3. grouping
        items = sel['items']
        aggregated = sel['group'] is not None or sel['having'] is not None or any(contains_agg(e) for e, a in items) \
            or (sel['order'] is not None and any(contains_agg(e) for e, d in sel['order']))
        colnames = []
        out = []          # (row tuple, sort key values)
        if aggregated:
            groups = {}
            order = []
            if sel['group'] is not None:
                for s in scopes:
                    key = tuple(self.group_key(self.ev(e, s, None)) for e in sel['group'])
                    if key not in groups:
                        groups[key] = []
                        order.append(key)
                    groups[key].append(s)
                self.check_keys([k for k in order])
            else:
                groups[()] = list(scopes)
                order.append(())
            for key in order:
                g = groups[key]
                rep = g[0] if g else Scope(outer, [])
                if sel['having'] is not None and P.truth(self.ev(sel['having'], rep, g)) is not True:
                    continue
                row = self.project(items, rep, g, colnames if not out else None, empty_group=not g)
                sort = [self.ev(e, rep, g) for e, d in sel['order']] if sel['order'] else None
                out.append((row, sort))
        else:
            for s in scopes:
                row = self.project(items, s, None, colnames if not out else None)
                sort = [self.ev(e, s, None) for e, d in sel['order']] if sel['order'] else None
                out.append((row, sort))
        if not out and not colnames:
            self.project(items, None, None, colnames, names_only=True)
        # 4. DISTINCT
        if sel['distinct']:
            seen = {}
            res = []
            for row, sort in out:
                k = tuple(self.group_key(v) for v in row)
                if k not in seen:
                    seen[k] = True
                    res.append((row, sort))
            self.check_keys(list(seen))
            out = res
        # 5. ORDER BY
        if sel['order']:
            descs = [d for e, d in sel['order']]

            def cmp_rows(x, y):
                for a, b, desc in zip(x[1], y[1], descs):
                    if a is None and b is None:
                        continue
                    if a is None or b is None:
                        c = -1 if (a is None) == P.nulls_first else 1
                    else:
                        c = P.compare(a, b)
                    if c:
                        return -c if desc else c
                return 0
            out.sort(key=functools.cmp_to_key(cmp_rows))
        rows = [row for row, sort in out]
        # 6. LIMIT / OFFSET
        if sel['limit'] is not None:
            limit = P.limit_value(sel['limit'], 'limit')
            offset = P.limit_value(sel['offset'], 'offset') if sel['offset'] is not None else 0
            offset = offset or 0
            rows = rows[offset:] if limit is None else rows[offset:offset + limit]
        return colnames, rows

    def project(self, items, scope, group, colnames, empty_group=False, names_only=False):
        row = []
        for e, alias in items:
            if e[0] == 'star':
                if scope is None:
                    if colnames is not None:
                        colnames.append('*')
                    continue
                for a, colmap, r in scope.tables:
                    if e[1] is not None and a != e[1]:
                        continue
                    for c, idx in sorted(colmap.items(), key=lambda kv: kv[1]):
                        if c in ('ROWID', 'rowid') and self.P.has_rowid:
                            continue
                        row.append(None if r is None else r[idx])
                        if colnames is not None:
                            colnames.append(c)
                continue
            if colnames is not None:
                colnames.append(alias if alias is not None else (e[2] if e[0] == 'col' else None))
            if names_only:
                continue
            if empty_group and not contains_agg(e):
                row.append(None if e[0] != 'lit' else e[1])
                continue
            v = self.ev(e, scope, group)
            if isinstance(v, Row):
                raise Unmodelled('row value in the select list')
            row.append(v)
        return tuple(row)

    def group_key(self, v):
        if isinstance(v, str):
            return ('s', self.P.str_key(v))
        if isinstance(v, bool):
            return ('b', v)
        if isinstance(v, Row):
            return ('r',) + tuple(self.group_key(x) for x in v)
        if isinstance(v, JsonVal):
            return ('j', v.key())
        if v is None:
            return ('n',)
        return ('v', v)

    def check_keys(self, keys):
        """MySQL: two different keys that the collation identifies => the grouping depends on the collation"""
        if self.P.name != 'mysql' or len(keys) < 2:
            return
        strs = set()
        for k in keys:
            for part in k:
                if part[0] == 's':
                    strs.add(part[1])
        folded = {}
        for s in strs:
            f = self.P._ci(s)
            if f in folded and folded[f] != s:
                raise CollationSensitive('mysql: DISTINCT / GROUP BY over %r and %r, equal under utf8_general_ci' % (folded[f], s))
            folded[f] = s

    # ---- expressions
    def ev(self, e, scope, group):
        P = self.P
        k = e[0]
        if k == 'lit':
            return e[1]
        if k == 'col':
            return scope.lookup(e[1], e[2]) if scope is not None else self._nocol(e)
        if k == 'ph':
            return self.param(e[1])
        if k == 'cmp':
            a, b = self.ev(e[2], scope, group), self.ev(e[3], scope, group)
            return P.from_bool(self.cmp(e[1], a, b))
        if k == 'and':
            a = P.truth(self.ev(e[1], scope, group))
            if a is False:
                # still type-check the right operand on strict servers? (a server may short-circuit: do not evaluate)
                return P.from_bool(False)
            b = P.truth(self.ev(e[2], scope, group))
            if b is False:
                return P.from_bool(False)
            return P.from_bool(None if (a is None or b is None) else True)
        if k == 'or':
            a = P.truth(self.ev(e[1], scope, group))
            if a is True:
                return P.from_bool(True)
            b = P.truth(self.ev(e[2], scope, group))
            if b is True:
                return P.from_bool(True)
            return P.from_bool(None if (a is None or b is None) else False)
        if k == 'not':
            a = P.truth(self.ev(e[1], scope, group))
            return P.from_bool(None if a is None else (not a))
        if k == 'isnull':
            v = self.ev(e[1], scope, group)
            if isinstance(v, Row):
                # SQL-92 8.6 / PG 9.24.? : R IS NULL is true when every field is null; R IS NOT NULL when every field is non-null
                r = all(x is not None for x in v) if e[2] else all(x is None for x in v)
                return P.from_bool(r)
            r = v is None
            return P.from_bool((not r) if e[2] else r)
        if k == 'bin':
            a, b = self.ev(e[2], scope, group), self.ev(e[3], scope, group)
            if isinstance(a, Row) or isinstance(b, Row):
                raise Unmodelled('row value in arithmetic')
            if e[1] == '||':
                return P.concat_op(a, b)
            if e[1] in ('#>', '#>>'):
                return P.json_path_op(e[1], a, b)
            return P.arith(e[1], a, b)
        if k == 'neg':
            return P.negate(self.ev(e[1], scope, group))
        if k == 'func':
            name = e[1]
            args = [self.ev(x, scope, group) for x in e[2]]
            if any(isinstance(a, Row) for a in args):
                raise Unmodelled('row value as a function argument')
            r = P.call(name, args)
            if P.empty_string_is_null and r == '':
                r = None
            return r
        if k == 'agg':
            if group is None:
                raise SqlSyntaxError('aggregate outside an aggregated query level')
            return self.aggregate(e, group)
        if k == 'case':
            return self.case(e, scope, group)
        if k == 'cast':
            v = self.ev(e[1], scope, group)
            return P.cast(v, e[2])
        if k == 'in':
            return P.from_bool(self.in_(e, scope, group))
        if k == 'like':
            s = self.ev(e[1], scope, group)
            pat = self.ev(e[2], scope, group)
            esc = self.ev(e[3], scope, group) if e[3] is not None else None
            r = P.like(s, pat, esc)
            if r is not None and e[4]:
                r = not r
            return P.from_bool(r)
        if k == 'between':
            v = self.ev(e[1], scope, group)
            lo = self.ev(e[2], scope, group)
            hi = self.ev(e[3], scope, group)
            r = _and3(self.cmp('>=', v, lo), self.cmp('<=', v, hi))
            if r is not None and e[4]:
                r = not r
            return P.from_bool(r)
        if k == 'exists':
            cols, rows = self.select(e[1], scope)
            return P.from_bool(bool(rows))
        if k == 'sub':
            cols, rows = self.select(e[1], scope)
            if len(rows) > 1:
                raise ServerError('%s: scalar subquery returned more than one row' % P.name)
            if not rows:
                return None
            if len(rows[0]) != 1:
                return Row(rows[0])
            return rows[0][0]
        if k == 'row':
            return Row(self.ev(x, scope, group) for x in e[1])
        if k == 'rownum':
            return scope.rownum
        raise Unmodelled('expression node %s' % k)

    def _nocol(self, e):
        raise SqlSyntaxError('column reference %r without a FROM clause' % (e,))

    def param(self, key):
        p = self.params
        if p is None:
            raise SqlSyntaxError('placeholder %r but no arguments were bound' % (key,))
        try:
            v = p[key]
        except (KeyError, IndexError, TypeError):
            raise SqlSyntaxError('placeholder %r has no bound argument in %r' % (key, p))
        if self.P.empty_string_is_null and v == '':
            return None
        if isinstance(v, bool):
            return self.P.bool_literal(v)
        return v

    def cmp(self, op, a, b):
        """three-valued comparison -> True/False/None"""
        P = self.P
        if isinstance(a, Row) or isinstance(b, Row):
            return P.row_cmp(op, a, b)
        if isinstance(a, JsonVal) or isinstance(b, JsonVal):
            if a is None or b is None:
                return None
            if not (isinstance(a, JsonVal) and isinstance(b, JsonVal)):
                raise Unmodelled('%s: comparison of a JSON value with %s' % (P.name, type(b if isinstance(a, JsonVal) else a).__name__))
            if op in ('=', '<>'):
                return (a == b) == (op == '=')      # PG 8.14.4 jsonb equality; structural, numbers numerically
            if not (a.is_number() and b.is_number()):
                raise Unmodelled('%s: ordering of JSON values' % P.name)
            a, b = a.value, b.value
        c = P.compare(a, b, op in ('=', '<>'))
        if c is None:
            return None
        return {'=': c == 0, '<>': c != 0, '<': c < 0, '<=': c <= 0, '>': c > 0, '>=': c >= 0}[op]

    def case(self, e, scope, group):
        P = self.P
        operand, whens, default = e[1], e[2], e[3]
        if operand is not None:
            ov = self.ev(operand, scope, group)
        for c, then in whens:
            if operand is not None:
                hit = self.cmp('=', ov, self.ev(c, scope, group)) is True
            else:
                hit = P.truth(self.ev(c, scope, group)) is True
            if hit:
                v = self.ev(then, scope, group)
                self._case_types(e, scope, group, v)
                return v
        v = self.ev(default, scope, group) if default is not None else None
        self._case_types(e, scope, group, v)
        return v

    def _case_types(self, e, scope, group, chosen):
        """PG 10.5: all result expressions of a CASE must have a common type; only literal branches are checked here
        (a non-literal branch may be unevaluable for this row)"""
        if self.P.name != 'postgres':
            return
        vals = [chosen]
        for c, then in e[2]:
            if then[0] == 'lit':
                vals.append(then[1])
        if e[3] is not None and e[3][0] == 'lit':
            vals.append(e[3][1])
        self.P.check_common_type('CASE', vals)

    def in_(self, e, scope, group):
        # PG 9.23.1 / 9.24.1 IN, 9.23.2 / 9.24.2 NOT IN (also for row constructors, compared row-wise per 9.24.5) and
        # MY 12.4.2 IN / 13.2.15.5 row subqueries ((a, b) = (x, y) is a = x AND b = y): true if an equal row is found; otherwise
        # NULL if the left operand or any compared right-hand component is NULL in a way that leaves an equality unknown,
        # else false; NOT IN is the three-valued negation
        v = self.ev(e[1], scope, group)
        rhs = e[2]
        if isinstance(rhs, tuple) and rhs[0] == 'sub':
            cols, rows = self.select(rhs[1], scope)
            width = len(v) if isinstance(v, Row) else 1
            if rows and len(rows[0]) != width:
                raise ServerError('%s: subquery has %d columns, left operand %d' % (self.P.name, len(rows[0]), width))
            cands = [Row(r) if width > 1 else r[0] for r in rows]
        else:
            cands = [self.ev(x, scope, group) for x in rhs]
        res = False
        for c in cands:
            r = self.cmp('=', v, c)
            if r is True:
                res = True
                break
            if r is None:
                res = None
        if e[3]:
            res = None if res is None else (not res)
        return res

    def aggregate(self, e, group):
        P = self.P
        name, args, distinct = e[1], e[2], e[3]
        if args is None:
            return len(group)
        if len(args) > 1:
            if name == 'count' and distinct and P.name == 'mysql':
                # MY 12.19.1 COUNT(DISTINCT expr,[expr...]): "number of rows with different non-NULL expr values"
                vals = []
                for s in group:
                    r = tuple(self.ev(a, s, None) for a in args)
                    if any(x is None for x in r):
                        continue
                    vals.append(Row(r))
            else:
                raise Unmodelled('%s: %s() with %d arguments' % (P.name, name, len(args)))
        else:
            vals = [self.ev(args[0], s, None) for s in group]
            if name == 'count' and any(isinstance(v, Row) for v in vals):
                # PG 9.21: count("any") counts the rows for which the argument is not null; a row value is null only
                # when it IS NULL as a whole, i.e. all fields are null (PG 9.24.? / 8.16.5)
                if P.name != 'postgres':
                    raise Unmodelled('%s: COUNT over a row value' % P.name)
                vals = [v for v in vals if not (isinstance(v, Row) and all(x is None for x in v))]
            vals = [v for v in vals if v is not None]
        if distinct:
            seen = {}
            for v in vals:
                seen.setdefault(self.group_key(v), v)
            self.check_keys([(k,) for k in seen])
            vals = list(seen.values())
        if name == 'count':
            return len(vals)
        if any(isinstance(v, Row) for v in vals):
            raise Unmodelled('%s over row values' % name)
        if not vals:
            return None
        if name in ('min', 'max'):
            best = vals[0]
            for v in vals[1:]:
                c = P.compare(v, best)
                if (c < 0 and name == 'min') or (c > 0 and name == 'max'):
                    best = v
            return best
        if any(not _is_num(v) for v in vals):
            if any(isinstance(v, bool) for v in vals):
                raise ServerError('%s: function %s(boolean) does not exist' % (P.name, name))
            raise Unmodelled('%s over non-numbers' % name)
        if name == 'sum':
            return sum(vals)
        if name == 'avg':
            raise Unmodelled('AVG result type')
        raise Unmodelled('aggregate %s' % name)


def _and3(a, b):
    if a is False or b is False:
        return False
    if a is None or b is None:
        return None
    return True


# =====================================================================================================================
# client-side argument formatting of the drivers (psycopg2 / MySQLdb send ONE text to the server)
# =====================================================================================================================
def pg_literal(v):
    """psycopg2 docs "Adaptation of Python values to SQL types": None -> NULL, bool -> true/false, int -> digits,
    str -> quoted with '' doubling (standard_conforming_strings = on: a backslash is an ordinary character)"""
    if v is None:
        return 'NULL'
    if isinstance(v, bool):
        return 'true' if v else 'false'
    if isinstance(v, int):
        return str(v) if v >= 0 else ' %d' % v        # psycopg2 puts a space before a negative number ("--" guard)
    if isinstance(v, str):
        if '\0' in v:
            raise ServerError('psycopg2: a string literal cannot contain NUL (0x00) characters')
        return "'%s'" % v.replace("'", "''")
    raise Unmodelled('psycopg2 adaptation of %s' % type(v).__name__)


def mysql_literal(v):
    """MySQLdb converters: None -> NULL, bool -> 1/0, int -> digits, str -> mysql_real_escape_string() in quotes
    (MY C API: escapes \\, ', ", NUL, LF, CR and Control-Z)"""
    if v is None:
        return 'NULL'
    if isinstance(v, bool):
        return '1' if v else '0'
    if isinstance(v, int):
        return str(v)
    if isinstance(v, str):
        for a, b in (('\\', '\\\\'), ("'", "\\'"), ('\0', '\\0'), ('\n', '\\n'), ('\r', '\\r'), ('"', '\\"'), ('\x1a', '\\Z')):
            v = v.replace(a, b)
        return "'%s'" % v
    raise Unmodelled('MySQLdb conversion of %s' % type(v).__name__)


def client_format(sql, args, dialect):
    """what cursor.execute(sql, args) of psycopg2 / MySQLdb sends: `sql % literals` (only when args is not None)"""
    if args is None:
        return sql
    lit = pg_literal if dialect in ('postgres', 'cockroach') else mysql_literal
    try:
        if isinstance(args, dict):
            return sql % {k: lit(v) for k, v in args.items()}
        return sql % tuple(lit(v) for v in args)
    except (TypeError, ValueError, KeyError) as e:
        raise ServerError('%s driver: cannot format the arguments into the statement (%s: %s)' % (dialect, type(e).__name__, e))
