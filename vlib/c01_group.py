"""C01, grouped part: aggregate projections  select((key, ..., aggregate(expr), ...) for e in E [if cond]).

The query grammar of vlib/qgen.py asserts row-level projections only; this module covers Pony's implicit GROUP BY: every
non-aggregate element of the projection is a grouping key, every aggregate is computed per group.  Oracle: plain Python
group-by over the generated rows with the aggregate semantics Pony documents (count(expr) counts distinct non-null values
unless distinct=False, count(e) / count() count rows, sum() of no values is 0, min/max/avg of no values is None, a query
without keys yields exactly one row).  An expression that navigates through an Optional reference that is None
(e.d.v with e.d None; count(e.d) for a composite-key target, which needs the target table) makes the row *optional*:
Pony may join inner or outer there, so the result must equal the oracle with those rows kept or with those rows dropped,
decided per reference (validity predicate, not one expected answer)."""
import itertools
from hypothesis import strategies as st

INTS = [0, 1, 2, 3, -1, 5]

KEYS = ['e.g', 'e.h', 'e.d', 'e.f', 'e.fr', 'e.fr.w', 'e.d.v', 'e.f.w', 'e.d.k1']
AGGS = ['count(e)', 'count()', 'count(e.n)', 'count(e.h)', 'count(e.d)', 'count(e.f)', 'count(e.fr)', 'count(e.d.v)', 'count(e.f.w)',
        'count(e.n, distinct=False)', 'count(e.g, distinct=False)', 'sum(e.n)', 'sum(e.m)', 'sum(e.d.v)', 'sum(e.fr.w)', 'sum(e.f.w)',
        'sum(e.n, distinct=True)', 'min(e.n)', 'max(e.n)', 'min(e.m)', 'max(e.d.v)', 'avg(e.n)', 'avg(e.m)', 'max(e.fr.w)',
        'count(e.d.k2)', 'sum(e.n + e.m)', 'max(e.m - e.g)']
CONDS = [None, None, 'e.n > {c}', 'e.m >= {c}', 'e.n != {c}', 'e.d is not None', 'e.f is None', 'e.g == {c}', 'e.fr.w > {c}', 'e.d.v == {c}',
         'e.h is None']


@st.composite
def cases(draw):
    ds = draw(st.lists(st.tuples(st.integers(1, 2), st.sampled_from(['a', 'b']), st.one_of(st.none(), st.sampled_from(INTS))),
                       min_size=0, max_size=3, unique_by=lambda t: (t[0], t[1])))
    fs = draw(st.lists(st.one_of(st.none(), st.sampled_from(INTS)), min_size=1, max_size=3))
    oint = st.one_of(st.none(), st.sampled_from(INTS))
    es = []
    for i in range(draw(st.integers(0, 7))):
        es.append({'id': i + 1, 'g': draw(st.integers(0, 2)), 'h': draw(oint), 'n': draw(oint), 'm': draw(st.sampled_from(INTS)),
                   'd': draw(st.one_of(st.none(), st.integers(0, len(ds) - 1))) if ds else None,
                   'f': draw(st.one_of(st.none(), st.integers(0, len(fs) - 1))),
                   'fr': draw(st.integers(0, len(fs) - 1))})
    keys = draw(st.lists(st.sampled_from(KEYS), min_size=0, max_size=2, unique=True))
    aggs = draw(st.lists(st.sampled_from(AGGS), min_size=1, max_size=3, unique=True))
    cond = draw(st.sampled_from(CONDS))
    if cond is not None:
        cond = cond.format(c=draw(st.sampled_from(INTS)))
    return {'kind': 'group', 'ds': [list(t) for t in ds], 'fs': fs, 'es': es, 'keys': keys, 'aggs': aggs, 'cond': cond,
            'form': draw(st.sampled_from(['string', 'generator']))}


def source(case):
    elems = case['keys'] + case['aggs']
    proj = elems[0] if len(elems) == 1 else '(%s)' % ', '.join(elems)
    return '%s for e in E%s' % (proj, (' if ' + case['cond']) if case['cond'] else '')


# ---------------------------------------------------------------------------------------------- reference evaluation
class Missing(Exception):
    """the expression navigates through an Optional reference that is None"""
    def __init__(self, ref):
        self.ref = ref


def _val(expr, e, case):
    """value of a non-aggregate expression for row e; entities are represented by ('D', k1, k2) / ('F', id)"""
    expr = expr.strip()
    if expr.startswith('e.'):
        path = expr[2:].split('.')
        a = path[0]
        if a in ('g', 'h', 'n', 'm'):
            assert len(path) == 1
            return e[a]
        if a == 'd':
            i = e['d']
            if len(path) == 1:
                return None if i is None else ('D', case['ds'][i][0], case['ds'][i][1])
            if i is None:
                raise Missing('d')
            return {'k1': case['ds'][i][0], 'k2': case['ds'][i][1], 'v': case['ds'][i][2]}[path[1]]
        if a in ('f', 'fr'):
            i = e[a]
            if len(path) == 1:
                return None if i is None else ('F', i + 1)
            if i is None:
                raise Missing(a)
            return case['fs'][i]
    for op in (' + ', ' - '):
        if op in expr:
            l, r = expr.split(op)
            a, b = _val(l, e, case), _val(r, e, case)
            if a is None or b is None:
                return None
            return a + b if op == ' + ' else a - b
    raise ValueError(expr)


def _cond(cond, e, case):
    """SQL three-valued: a row passes only if the condition is definitely true"""
    if cond is None:
        return True
    if cond.endswith(' is not None'):
        return _val(cond[:-12], e, case) is not None
    if cond.endswith(' is None'):
        return _val(cond[:-8], e, case) is None
    for op in (' >= ', ' != ', ' == ', ' > '):
        if op in cond:
            l, r = cond.split(op)
            a = _val(l, e, case)
            if a is None:
                return False
            c = int(r)
            return {' >= ': a >= c, ' != ': a != c, ' == ': a == c, ' > ': a > c}[op]
    raise ValueError(cond)


def _aggregate(agg, rows, case):
    name, arg = agg[:agg.index('(')], agg[agg.index('(') + 1:-1]
    distinct = None
    if ', distinct=' in arg:
        arg, d = arg.split(', distinct=')
        distinct = d == 'True'
    if name == 'count' and arg in ('', 'e'):
        return len(rows)
    vals = [v for v in (_val(arg, e, case) for e in rows) if v is not None]
    if name == 'count':
        return len(vals) if distinct is False else len(set(vals))
    if distinct:
        vals = list(set(vals))
    if name == 'sum':
        return sum(vals)
    if not vals:
        return None
    if name == 'min':
        return min(vals)
    if name == 'max':
        return max(vals)
    if name == 'avg':
        return sum(vals) / float(len(vals))
    raise ValueError(agg)


def composite_count_refs(case):
    """count(e.d) needs D's table (composite key): rows with e.d None are optional there"""
    return {'d'} if 'count(e.d)' in case['aggs'] else set()


def refs_navigated(case):
    refs = set()
    for x in case['keys'] + case['aggs'] + ([case['cond']] if case['cond'] else []):
        for ref in ('d', 'f', 'fr'):
            if 'e.%s.' % ref in x:
                refs.add(ref)
    refs.discard('fr')      # Required: never None
    return refs | composite_count_refs(case)


def expected_variants(case):
    """list of acceptable results (each a sorted list of tuples): one per choice of dropping / keeping the rows whose
    navigated Optional reference is None"""
    out = []
    refs = sorted(refs_navigated(case))
    for drop in itertools.product([True, False], repeat=len(refs)):
        dropped = {r for r, d in zip(refs, drop) if d}
        rows = []
        for e in case['es']:
            if any(e[r] is None for r in dropped):
                continue
            try:
                if not _cond(case['cond'], e, case):
                    continue
            except Missing:
                continue            # a condition on a missing partner is not true
            rows.append(e)
        groups = {}
        order = []
        for e in rows:
            key = []
            for k in case['keys']:
                try:
                    key.append(_val(k, e, case))
                except Missing:
                    key.append(None)
            key = tuple(key)
            if key not in groups:
                groups[key] = []
                order.append(key)
            groups[key].append(e)
        if not case['keys']:
            groups = {(): rows}
            order = [()]
        res = []
        for key in order:
            grows = groups[key]
            vals = []
            for a in case['aggs']:
                def safe_rows(a=a):
                    arg = a[a.index('(') + 1:-1].split(', distinct=')[0]
                    keep = []
                    for e in grows:
                        try:
                            if arg not in ('', 'e'):
                                _val(arg, e, case)
                            keep.append(e)
                        except Missing:
                            pass        # kept row (outer join): the aggregated value is NULL and does not count
                    return keep
                name = a[:a.index('(')]
                arg = a[a.index('(') + 1:-1].split(', distinct=')[0]
                if name == 'count' and arg in ('', 'e'):
                    vals.append(len(grows))
                else:
                    vals.append(_aggregate(a, safe_rows(), case))
            res.append(tuple(key) + tuple(vals))
        out.append(res)
    return out


def norm(v):
    if isinstance(v, float):
        return round(v, 9)
    if isinstance(v, tuple):
        return tuple(norm(x) for x in v)
    return v


def canon(rows):
    return sorted((norm(r) for r in rows), key=repr)


# ---------------------------------------------------------------------------------------------- execution against Pony
def build(case):
    from pony.orm import Database, Required, Optional, Set, PrimaryKey, db_session
    db = Database()

    class D(db.Entity):
        k1 = Required(int)
        k2 = Required(str)
        v = Optional(int)
        PrimaryKey(k1, k2)
        es = Set('E')

    class F(db.Entity):
        id = PrimaryKey(int)
        w = Optional(int)
        es = Set('E', reverse='f')
        ers = Set('E', reverse='fr')

    class E(db.Entity):
        id = PrimaryKey(int)
        g = Required(int)
        h = Optional(int)
        n = Optional(int)
        m = Required(int)
        d = Optional(D)
        f = Optional(F, reverse='es')
        fr = Required(F, reverse='ers')
    db.bind('sqlite', ':memory:')
    db.generate_mapping(create_tables=True)
    with db_session:
        dobjs = [D(k1=k1, k2=k2, v=v) for k1, k2, v in case['ds']]
        fobjs = [F(id=i + 1, w=w) for i, w in enumerate(case['fs'])]
        for e in case['es']:
            E(id=e['id'], g=e['g'], h=e['h'], n=e['n'], m=e['m'], d=None if e['d'] is None else dobjs[e['d']],
              f=None if e['f'] is None else fobjs[e['f']], fr=fobjs[e['fr']])
    return db, {'D': D, 'F': F, 'E': E}


def run_pony(case):
    """returns canonical rows, or raises"""
    from pony.orm import select, db_session, count, sum as psum, min as pmin, max as pmax, avg
    db, classes = build(case)
    try:
        src = source(case)
        genv = dict(classes, count=count, sum=psum, min=pmin, max=pmax, avg=avg, select=select)
        with db_session:
            if case['form'] == 'string':
                res = select(src, genv, {})[:]
            else:
                res = eval(compile('select(%s)[:]' % src, '<c01-group>', 'eval'), genv)
            out = []
            single = len(case['keys']) + len(case['aggs']) == 1
            for r in res:
                r = (r,) if single else tuple(r)
                out.append(tuple(('D', x.k1, x.k2) if type(x).__name__ == 'D' else ('F', x.id) if type(x).__name__ == 'F' else x for x in r))
        return canon(out)
    finally:
        db.disconnect()


def judge(case):
    """returns (status, message): status in ok / rejected / violation"""
    from pony.orm.core import TranslationError
    try:
        got = run_pony(case)
    except (TranslationError, NotImplementedError, TypeError) as e:
        return 'rejected', '%s: %s' % (type(e).__name__, e)
    variants = [canon(v) for v in expected_variants(case)]
    if got in variants:
        return 'ok', None
    return 'violation', ('select(%s) [%s form] over E rows %s, D %s, F %s returned %s; Python group-by gives %s'
                         % (source(case), case['form'], [(e['id'], e['g'], e['h'], e['n'], e['m'], e['d'], e['f'], e['fr']) for e in case['es']],
                            case['ds'], case['fs'], got, ' or '.join(map(repr, variants[:4]))))
