"""C11, nested-key part: one Python object per primary key when the key contains a reference to an entity whose own key is
composite (Shelf: PrimaryKey(room, no); Box: PrimaryKey(shelf, pos), so Box rows are addressed by three raw columns) and
the object is reached through different paths in a drawn order: navigation from a referencing object, attribute-path and
tuple queries, Box[room, no, pos] (raw values), Box[shelf_object, pos], plain selects and get()."""
from hypothesis import strategies as st

PATHS = ['nav', 'query_attr', 'query_tuple', 'getitem_raw', 'getitem_obj', 'select_all', 'get_kw', 'nav_coll']


@st.composite
def cases(draw):
    shelves = draw(st.lists(st.tuples(st.integers(1, 3), st.integers(1, 3)), min_size=1, max_size=3, unique=True))
    boxes = draw(st.lists(st.tuples(st.integers(0, len(shelves) - 1), st.integers(1, 4)), min_size=1, max_size=4, unique=True))
    items = draw(st.lists(st.one_of(st.none(), st.integers(0, len(boxes) - 1)), min_size=1, max_size=4))
    paths = draw(st.lists(st.sampled_from(PATHS), min_size=2, max_size=6))
    return {'kind': 'nested', 'shelves': [list(s) for s in shelves], 'boxes': [list(b) for b in boxes], 'items': items, 'paths': paths,
            'fresh_session_each': draw(st.booleans())}


def build(case):
    from pony.orm import Database, Required, Optional, Set, PrimaryKey, db_session
    db = Database()

    class Shelf(db.Entity):
        room = Required(int)
        no = Required(int)
        PrimaryKey(room, no)
        boxes = Set('Box')

    class Box(db.Entity):
        shelf = Required(Shelf)
        pos = Required(int)
        PrimaryKey(shelf, pos)
        items = Set('Item')

    class Item(db.Entity):
        id = PrimaryKey(int)
        box = Optional(Box)
    db.bind('sqlite', ':memory:')
    db.generate_mapping(create_tables=True)
    with db_session:
        ss = [Shelf(room=r, no=n) for r, n in case['shelves']]
        bs = [Box(shelf=ss[si], pos=p) for si, p in case['boxes']]
        for i, bi in enumerate(case['items']):
            Item(id=i + 1, box=None if bi is None else bs[bi])
    return db, Shelf, Box, Item


def judge(case):
    """returns a violation message or None"""
    from pony.orm import db_session, select, ObjectNotFound
    db, Shelf, Box, Item = build(case)
    keys = [(case['shelves'][si][0], case['shelves'][si][1], p) for si, p in case['boxes']]
    item_keys = [None if bi is None else keys[bi] for bi in case['items']]

    def key_of(b):
        return (b.shelf.room, b.shelf.no, b.pos)
    try:
        seen = {}      # key -> object (first sight)

        def note(path, b, expected_key=None):
            try:
                k = key_of(b)
                pk = b.get_pk()
            except Exception as e:
                return '%s: an object reached by %s cannot be read: %s: %s' % (path, path, type(e).__name__, e)
            if pk != ((k[0], k[1]), k[2]) and pk != k:
                return '%s: Box object has get_pk() %r but its attributes say %r' % (path, pk, k)
            if expected_key is not None and k != expected_key:
                return '%s: asked for Box%r, got the object of Box%r' % (path, expected_key, k)
            if k not in keys:
                return '%s: returned Box%r which does not exist (stored: %r)' % (path, k, keys)
            if k in seen and seen[k] is not b:
                return '%s: Box%r is a second Python object for the same primary key (first seen earlier in this session)' % (path, k)
            seen[k] = b
            return None

        def run_paths():
            for path in case['paths']:
                if path == 'nav':
                    for i, ek in enumerate(item_keys):
                        b = Item[i + 1].box
                        if (b is None) != (ek is None):
                            return 'nav: Item[%d].box is %r, stored %r' % (i + 1, b, ek)
                        if b is not None:
                            m = note('Item[%d].box' % (i + 1), b, ek)
                            if m:
                                return m
                elif path == 'query_attr':
                    got = select(i.box for i in Item)[:]
                    for b in got:
                        if b is not None:
                            m = note('select(i.box for i in Item)', b)
                            if m:
                                return m
                    if sorted(key_of(b) for b in got if b is not None) != sorted(set(k for k in item_keys if k is not None)):
                        return 'select(i.box for i in Item) returned %r, stored references %r' % (
                            sorted(key_of(b) for b in got if b is not None), sorted(set(k for k in item_keys if k is not None)))
                elif path == 'query_tuple':
                    got = select((b, b.pos) for b in Box)[:]
                    for b, pos in got:
                        m = note('select((b, b.pos) for b in Box)', b)
                        if m:
                            return m
                        if pos != b.pos:
                            return 'select((b, b.pos) for b in Box): pos %r next to object with pos %r' % (pos, b.pos)
                    if sorted(key_of(b) for b, _ in got) != sorted(keys):
                        return 'select((b, b.pos) for b in Box) returned %r, stored %r' % (sorted(key_of(b) for b, _ in got), sorted(keys))
                elif path in ('getitem_raw', 'getitem_obj', 'get_kw'):
                    for k in keys:
                        try:
                            if path == 'getitem_raw':
                                b = Box[k[0], k[1], k[2]]
                            elif path == 'getitem_obj':
                                b = Box[Shelf[k[0], k[1]], k[2]]
                            else:
                                b = Box.get(shelf=Shelf[k[0], k[1]], pos=k[2])
                        except ObjectNotFound as e:
                            return '%s: Box%r exists but the lookup raised ObjectNotFound' % (path, k)
                        if b is None:
                            return '%s: Box%r exists but get() returned None' % (path, k)
                        m = note('%s Box%r' % (path, k), b, k)
                        if m:
                            return m
                elif path == 'select_all':
                    got = select(b for b in Box)[:]
                    for b in got:
                        m = note('select(b for b in Box)', b)
                        if m:
                            return m
                    if sorted(key_of(b) for b in got) != sorted(keys):
                        return 'select(b for b in Box) returned %r, stored %r' % (sorted(key_of(b) for b in got), sorted(keys))
                elif path == 'nav_coll':
                    for (r, n) in case['shelves']:
                        for b in Shelf[r, n].boxes:
                            m = note('Shelf[%d,%d].boxes' % (r, n), b)
                            if m:
                                return m
            return None
        try:
            with db_session:
                return run_paths()
        except Exception as e:
            import traceback
            tb = traceback.extract_tb(e.__traceback__)
            inside = any('/pony/' in f.filename for f in tb[-3:])
            if inside:
                return 'paths %r raised %s: %s inside Pony' % (case['paths'], type(e).__name__, str(e)[:200])
            raise
    finally:
        db.disconnect()
