"""C03 oracle: evaluate a lambda / generator expression and the tree Pony's decompiler rebuilds from its
bytecode under every assignment of the free value names, and compare the observable results.

Nothing here looks at the *shape* of the tree Pony returns: the tree is compiled with Python's own
compiler (ast -> code, not through pony's ast2src) and run.  The only Pony entry points used are
pony.orm.decompiling.decompile(obj) (cache path) and Decompiler(code).ast (no cache).
"""
import ast, re, sys, types, itertools, warnings, opcode

warnings.simplefilter('ignore', SyntaxWarning)

# ---------------------------------------------------------------------------------------------------
# environment
# ---------------------------------------------------------------------------------------------------
VALUE_NAMES = ('a', 'b', 'c', 'd', 'e', 'g', 'h', 'i', 'j')       # free names that are varied
VALUE_NAME_SET = frozenset(VALUE_NAMES)
LOOP_NAMES = ('x', 'y', 'z', 'u', 'v', 'w')               # only ever bound by for-clauses
DOMAIN = (0, 's', None, 1, '', 2)                          # prefix of length k is the domain of size k
# size of the per-name domain as a function of the number of distinct free value names (full product is run)
DOMAIN_SIZE = {0: 1, 1: 6, 2: 6, 3: 5, 4: 3, 5: 3}   # 6+ names -> 2 (3 when the source tests for None: None is added)


def domain_for(nnames, needs_none=False):
    dom = DOMAIN[:DOMAIN_SIZE.get(nnames, 2)]
    if needs_none and None not in dom:
        dom = dom + (None,)            # `x is None` / `x == None` must be observable on both outcomes
    return dom


class Obj(object):
    """plain object with attributes and a recording method; deterministic repr"""
    def __init__(self, name, **kw):
        self._name = name
        self.__dict__.update(kw)

    def m(self, *args, **kw):
        return ('m', self._name) + args + tuple(sorted(kw.items()))

    def __repr__(self):
        return '<%s>' % self._name


def _f(*args, **kw):
    """recording function: the result shows every positional and keyword argument"""
    return ('f',) + args + tuple(sorted(kw.items()))


def _k(*args, **kw):
    """identity on a single positional argument (keeps truthiness observable), recording otherwise"""
    if len(args) == 1 and not kw:
        return args[0]
    return ('k',) + args + tuple(sorted(kw.items()))


O1 = Obj('o1', p=0, q='s', r=None, t=(0, 1, 2))
O2 = Obj('o2', p=2, q='', r=O1, t=('s', '', None))

FIXED_ENV = {
    'f': _f, 'k': _k, 'o': O2,
    'T1': (0, 's', None, 2),
    'T2': (1, '', 's'),
    'T3': ((0, 's'), (2, ''), (None, 1)),          # pairs, for tuple targets
    'O': (O1, O2),
    'S': 'abcdef',
    'L': (0, 1, 2, 's', '', None),
    'D': {'s': 1, 0: '', None: 2},
    'len': len, 'str': str, 'abs': abs, 'max': max, 'min': min, 'sum': sum, 'tuple': tuple, 'list': list,
}
FIXED_NAME_SET = frozenset(FIXED_ENV)

_COND_JUMPS = frozenset(op for name, op in opcode.opmap.items() if name.startswith('POP_JUMP') or
                        name in ('JUMP_IF_TRUE_OR_POP', 'JUMP_IF_FALSE_OR_POP', 'JUMP_FORWARD'))


def count_jumps(code):
    """number of conditional-jump / JUMP_FORWARD instructions in a code object and its nested code objects"""
    n = 0
    for op in code.co_code[::2]:
        if op in _COND_JUMPS:
            n += 1
    for c in code.co_consts:
        if isinstance(c, types.CodeType):
            n += count_jumps(c)
    return n


# ---------------------------------------------------------------------------------------------------
# observation
# ---------------------------------------------------------------------------------------------------
def norm(v, depth=0):
    """JSON-able, type-faithful image of a value; generators are run and their items (and a possible
    exception type) recorded, which is what makes loop structure and conditions observable"""
    t = type(v)
    if t is types.GeneratorType:
        items = []
        try:
            for item in v:
                items.append(norm(item, depth + 1))
                if len(items) > 5000:
                    items.append('<truncated>')
                    break
        except Exception as e:
            return ['<gen>', items, type(e).__name__]
        return ['<gen>', items]
    if t is tuple or t is list:
        return [t.__name__, [norm(x, depth + 1) for x in v]]
    if t is dict:
        return ['dict', [[norm(k, depth + 1), norm(x, depth + 1)] for k, x in v.items()]]
    if t is set or t is frozenset:
        return [t.__name__, sorted(repr(norm(x, depth + 1)) for x in v)]
    if t is Obj:
        return ['obj', v._name]
    if t is types.FunctionType or t is types.BuiltinFunctionType or t is type:
        return ['fn', getattr(v, '__name__', '?')]
    if t is types.MethodType:
        return ['method', v.__self__._name if isinstance(v.__self__, Obj) else '?', v.__func__.__name__]
    if t is int and v.bit_length() > 256:
        return ['int', 'big:%d:%d' % (v.bit_length(), v % 1000003)]
    if t is str and ' at 0x' in v:
        # text made from a generator / lambda object created during the evaluation: address and qualname are not
        # part of the meaning of the expression
        v = _ADDR.sub(r'<\1>', v)
    if t is str and len(v) > 400:
        return ['str', 'long:%d:%s' % (len(v), v[:40])]
    return [t.__name__, repr(v)]


_ADDR = re.compile(r'<(generator object|function)\b.*? at 0x[0-9a-f]+>')


def observe(thunk):
    try:
        v = thunk()
        return norm(v)
    except RecursionError:
        raise
    except Exception as e:
        return ['<exc>', type(e).__name__]


# ---------------------------------------------------------------------------------------------------
# case preparation
# ---------------------------------------------------------------------------------------------------
class BadCase(Exception):
    """the generated source is not a usable case (generator bug, not a Pony matter)"""


class Prepared(object):
    __slots__ = ('src', 'mode', 'tree', 'top', 'is_gen', 'params', 'value_names', 'closure_names', 'tests_none',
                 'code_src', 'code_iter0', 'maker', 'inner_code', 'njumps')


def prepare(src, mode):
    """mode: 'global' (free names are globals) or 'closure' (free names are cells of an enclosing function)"""
    p = Prepared()
    p.src, p.mode = src, mode
    try:
        p.tree = ast.parse(src, mode='eval')
    except SyntaxError as e:
        raise BadCase('source does not parse: %s: %r' % (e, src))
    p.top = top = p.tree.body
    if isinstance(top, ast.Lambda):
        p.is_gen = False
        a = top.args
        if a.vararg or a.kwarg or a.kwonlyargs or a.defaults or a.posonlyargs:
            raise BadCase('only plain positional lambda parameters are used')
        p.params = [x.arg for x in a.args]
    elif isinstance(top, ast.GeneratorExp):
        p.is_gen = True
        p.params = []
    else:
        raise BadCase('case source must be a lambda or a generator expression: %r' % src)
    names = set()
    for n in ast.walk(p.tree):
        if isinstance(n, ast.Name):
            names.add(n.id)
    names.update(p.params)
    p.tests_none = ' None' in src
    unknown = [n for n in names if n not in VALUE_NAME_SET and n not in FIXED_NAME_SET and n not in LOOP_NAMES]
    if unknown:
        raise BadCase('unknown names %r in %r' % (unknown, src))
    p.value_names = sorted(n for n in names if n in VALUE_NAME_SET)
    try:
        if mode == 'global':
            p.code_src = compile(p.tree, '<c03-src>', 'eval')
            p.maker = None
            p.closure_names = []
        elif mode == 'closure':
            p.closure_names = sorted(n for n in names if (n in VALUE_NAME_SET or n in FIXED_NAME_SET)
                                     and n not in p.params)
            text = 'def _mk(%s):\n return (%s)\n' % (', '.join(p.closure_names), src)
            ns = {}
            exec(compile(text, '<c03-src>', 'exec'), ns)
            p.maker = ns['_mk']
            p.code_src = None
        else:
            raise BadCase('unknown mode %r' % (mode,))
        if p.is_gen:
            p.code_iter0 = compile(ast.Expression(body=top.generators[0].iter), '<c03-iter0>', 'eval')
        else:
            p.code_iter0 = None
    except SyntaxError as e:
        raise BadCase('source does not compile: %s: %r' % (e, src))
    p.inner_code = None
    p.njumps = 0
    return p


def make_object(p, env):
    """the lambda function / generator object of the case with its free names bound as in env"""
    if p.mode == 'global':
        return eval(p.code_src, env)
    return p.maker(**{n: env[n] for n in p.closure_names})


def assignments(p):
    names = p.value_names
    dom = domain_for(len(names), p.tests_none)
    for combo in itertools.product(dom, repeat=len(names)):
        yield dict(zip(names, combo))


# ---------------------------------------------------------------------------------------------------
# the judgement
# ---------------------------------------------------------------------------------------------------
class Verdict(object):
    __slots__ = ('status', 'message', 'detail', 'njumps', 'nassign', 'prepared', 'tree')

    def __init__(self, status, message=None, detail=None, njumps=0, nassign=0, prepared=None, tree=None):
        self.status = status        # 'ok' | 'rejected' | 'uncompilable' | 'violation'
        self.message = message
        self.detail = detail        # for rejected: exception type name
        self.njumps = njumps
        self.nassign = nassign
        self.prepared = prepared    # the parsed case (source tree, free names)
        self.tree = tree            # what the decompiler returned (diagnostics / samples only)


def reconstruct(p, use_cache):
    """ask Pony for the tree; returns (tree, None) or (None, exception)"""
    from pony.orm import decompiling
    env = dict(FIXED_ENV)
    for n in p.value_names:
        env[n] = 0
    obj = make_object(p, env)
    code = obj.gi_frame.f_code if p.is_gen else obj.__code__
    p.inner_code = code
    p.njumps = count_jumps(code)
    try:
        if use_cache:
            tree = decompiling.decompile(obj)[0]
        else:
            tree = decompiling.Decompiler(code).ast
    except RecursionError:
        raise
    except Exception as e:
        return None, e
    finally:
        if p.is_gen:
            obj.close()
    return tree, None


def compile_tree(tree):
    expr = ast.Expression(body=tree)
    ast.fix_missing_locations(expr)
    return compile(expr, '<c03-reconstructed>', 'eval')


def src_of(tree):
    try:
        return ast.unparse(tree)
    except Exception as e:                      # diagnostics only
        return '<cannot unparse: %s>' % type(e).__name__


def judge(src, mode='global', use_cache=True, prepared=None):
    p = prepared if prepared is not None else prepare(src, mode)
    tree, exc = reconstruct(p, use_cache)
    if exc is not None:
        return Verdict('rejected', detail=type(exc).__name__, njumps=p.njumps, prepared=p)
    if not isinstance(tree, ast.AST):
        return Verdict('uncompilable', detail='not an AST node: %s' % type(tree).__name__, njumps=p.njumps, prepared=p)
    try:
        code_rec = compile_tree(tree)
    except RecursionError:
        raise
    except (TypeError, ValueError, SyntaxError, AttributeError) as e:
        return Verdict('uncompilable', detail='%s: %s' % (type(e).__name__, str(e)[:120]), njumps=p.njumps, prepared=p, tree=tree)
    nassign = 0
    env = dict(FIXED_ENV)            # one namespace per case, shared by both sides (eval never writes to it)
    params = p.params
    is_gen = p.is_gen
    code_iter0 = p.code_iter0

    def original():
        obj = make_object(p, env)
        return obj if is_gen else obj(*[env[a] for a in params])

    def reconstructed():
        if is_gen:
            env['.0'] = iter(eval(code_iter0, env))
        return eval(code_rec, env)
    for asg in assignments(p):
        nassign += 1
        env.update(asg)
        expected = observe(original)
        got = observe(reconstructed)
        if expected != got:
            msg = ('%s [%s]: with %s the source gives %s but the tree returned by the decompiler (%s) gives %s'
                   % (src, mode, _fmt_asg(asg), _fmt_obs(expected), src_of(tree), _fmt_obs(got)))
            return Verdict('violation', message=msg, njumps=p.njumps, nassign=nassign, prepared=p, tree=tree)
    return Verdict('ok', njumps=p.njumps, nassign=nassign, prepared=p, tree=tree)


def _fmt_asg(asg):
    return '{' + ', '.join('%s=%r' % kv for kv in sorted(asg.items())) + '}' if asg else '{}'


def _fmt_obs(o):
    s = _fmt(o)
    return s if len(s) < 300 else s[:300] + '...'


def _fmt(o):
    if isinstance(o, list) and o:
        if o[0] == '<exc>':
            return 'raises ' + o[1]
        if o[0] == '<gen>':
            tail = ' then raises ' + o[2] if len(o) > 2 else ''
            return 'yields [' + ', '.join(_fmt(x) for x in o[1]) + ']' + tail
        if o[0] in ('tuple', 'list') and len(o) == 2 and isinstance(o[1], list):
            body = ', '.join(_fmt(x) for x in o[1])
            return '(' + body + ')' if o[0] == 'tuple' else '[' + body + ']'
        if len(o) == 2 and isinstance(o[1], str):
            return o[1]
    return repr(o)


# ---------------------------------------------------------------------------------------------------
# features (generator health / rejection rate per feature class)
# ---------------------------------------------------------------------------------------------------
def features(tree):
    """syntactic feature classes of a parsed case source (an ast.Expression)"""
    out = set()
    top = tree.body
    out.add('form:gen' if isinstance(top, ast.GeneratorExp) else 'form:lambda')
    ngen = 0
    for n in ast.walk(tree):
        t = type(n)
        if t is ast.BoolOp:
            out.add('f:and' if isinstance(n.op, ast.And) else 'f:or')
        elif t is ast.UnaryOp:
            out.add('f:not' if isinstance(n.op, ast.Not) else 'f:unary')
        elif t is ast.IfExp:
            out.add('f:ifexp')
        elif t is ast.Compare:
            out.add('f:compare')
            if len(n.ops) > 1:
                out.add('f:chain')
            for op, right in zip(n.ops, n.comparators):
                if isinstance(op, (ast.Is, ast.IsNot)):
                    out.add('f:is')
                elif isinstance(op, (ast.In, ast.NotIn)):
                    out.add('f:in')
        elif t is ast.BinOp:
            out.add('f:binop')
        elif t is ast.Call:
            out.add('f:call')
            if n.keywords:
                out.add('f:kwargs')
            if any(isinstance(a, ast.Starred) for a in n.args) or any(k.arg is None for k in n.keywords):
                out.add('f:star')
        elif t is ast.Attribute:
            out.add('f:attr')
        elif t is ast.Subscript:
            out.add('f:slice' if _has_slice(n.slice) else 'f:subscript')
        elif t is ast.JoinedStr:
            out.add('f:fstring')
        elif t is ast.Tuple or t is ast.List or t is ast.Dict or t is ast.Set:
            if isinstance(getattr(n, 'ctx', None), ast.Store):
                out.add('f:tuple_target')
            else:
                out.add('f:container')
        elif t is ast.GeneratorExp:
            ngen += 1
            if len(n.generators) > 1:
                out.add('f:multi_for')
            if any(g.ifs for g in n.generators):
                out.add('f:gen_if')
        elif t is ast.Constant:
            out.add('f:const')
        elif t is ast.Lambda and n is not top:
            out.add('f:inner_lambda')
    if ngen > (1 if isinstance(top, ast.GeneratorExp) else 0):
        out.add('f:nested_gen')
    return out


def _has_slice(s):
    if isinstance(s, ast.Slice):
        return True
    if isinstance(s, ast.Tuple):
        return any(isinstance(e, ast.Slice) for e in s.elts)
    return False


# ---------------------------------------------------------------------------------------------------
# syntactic positions (used only by the exclusion predicates of open known findings)
# ---------------------------------------------------------------------------------------------------
def positions(src):
    """yields (node, region, position, parents) for every expression node of the case source.

    region:   'pre'  = compiled before the last filter of its generator (every `if` of the generator, and the
                       iterables of the 2nd.. for-clauses up to the last clause that has an `if`);
              'post' = compiled after it (element, later iterables), or anywhere in a lambda body.
              A nested generator / lambda is its own code object and starts its own regions; the first
              iterable of a nested generator belongs to the enclosing code object.
    position: 'control' = the value is consumed by a conditional jump (an `if` of a generator, the test of a
                       conditional expression, and through not / and / or / the arms of a conditional expression
                       below such a place); 'value' = the value itself is used.
    parents:  tuple of ancestor nodes inside the same walk (nearest last).
    """
    tree = ast.parse(src, mode='eval').body
    out = []

    def walk(node, region, position, parents):
        out.append((node, region, position, parents))
        ps = parents + (node,)
        if isinstance(node, ast.GeneratorExp):
            gens = node.generators
            last = max([i for i, g in enumerate(gens) if g.ifs] or [-1])
            for i, g in enumerate(gens):
                if i == 0:
                    walk(g.iter, region, 'value', ps)          # evaluated by the enclosing code object
                else:
                    walk(g.iter, 'pre' if i <= last else 'post', 'value', ps)
                for c in g.ifs:
                    walk(c, 'pre', 'control', ps)
            walk(node.elt, 'post', 'value', ps)
        elif isinstance(node, ast.Lambda):
            for d in node.args.defaults:
                walk(d, region, 'value', ps)
            walk(node.body, 'post', 'value', ps)
        elif isinstance(node, ast.BoolOp):
            for v in node.values:
                walk(v, region, position, ps)
        elif isinstance(node, ast.UnaryOp) and isinstance(node.op, ast.Not):
            walk(node.operand, region, position, ps)
        elif isinstance(node, ast.IfExp):
            walk(node.test, region, 'control', ps)
            walk(node.body, region, position, ps)
            walk(node.orelse, region, position, ps)
        else:
            for child in ast.iter_child_nodes(node):
                if isinstance(child, ast.expr):
                    walk(child, region, 'value', ps)
                elif isinstance(child, (ast.keyword, ast.FormattedValue)):
                    walk(child.value, region, 'value', ps)
                elif isinstance(child, ast.comprehension):      # list/set/dict comprehension: not generated
                    pass
    if isinstance(tree, ast.Lambda):
        walk(tree, 'post', 'value', ())
    else:
        # top-level generator: its first iterable is outside the decompiled code object
        gens = tree.generators
        last = max([i for i, g in enumerate(gens) if g.ifs] or [-1])
        ps = (tree,)
        out.append((tree, 'post', 'value', ()))
        for i, g in enumerate(gens):
            if i > 0:
                walk(g.iter, 'pre' if i <= last else 'post', 'value', ps)
            for c in g.ifs:
                walk(c, 'pre', 'control', ps)
        walk(tree.elt, 'post', 'value', ps)
    return out


def is_constant_expr(node):
    """constants and what the compiler folds to one: -2, not 0, (1, 2)"""
    if isinstance(node, ast.Constant):
        return True
    if isinstance(node, ast.UnaryOp):
        return is_constant_expr(node.operand)
    if isinstance(node, ast.Tuple):
        return all(is_constant_expr(e) for e in node.elts)
    if isinstance(node, ast.BinOp):
        return is_constant_expr(node.left) and is_constant_expr(node.right)
    return False
