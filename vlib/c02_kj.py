"""C02: two small extra worlds whose translation is dialect specific and which vlib/qgen.py's fixed schema cannot express.

K  composite primary keys: aggregates / DISTINCT / IN-subqueries over an entity R with PrimaryKey(b, k), reached through a
   to-one attribute (T.room), a many-to-many attribute (T.rooms), a one-to-many collection (R.ts) or as the loop variable.
   SQLite / Oracle count such objects through ROWID (with a join), PostgreSQL through ROW(...) values, MySQL through
   multi-column COUNT(DISTINCT a, b) or not at all.
J  a Json attribute with flat documents {'flag': .., 'n': int, 's': str}, queried by a CHAIN of Query methods
   (select / Entity.select, then order_by / filter / where with lambdas in any order): every method starts from the translator
   state the previous one left behind, and the rendering of a JSON item is dialect specific (SQLite json_extract +
   py_json_unwrap, PostgreSQL #> / #>>, MySQL json_extract / json_unquote / CAST).

A case is plain JSON: {'family': 'K'|'J', 'data': ..., 'query': ...}.  The reference answers are computed here from the data
alone with ordinary Python (no pony, no SQL).  reference(case) -> (required rows, optional rows): a result is valid when it
contains every required row with its multiplicity and nothing else except optional rows.
"""
import json
from hypothesis import strategies as st

# =====================================================================================================================
# K: composite keys
# =====================================================================================================================
ROOMS = [(1, 1), (1, 2), (2, 1), (2, 2)]


def k_schema(db, opts):
    from pony.orm import Required, Optional, Set, PrimaryKey
    room_attr = Required if opts.get('room_required', True) else Optional

    class R(db.Entity):
        b = Required(int)
        k = Required(int)
        v = Required(int)
        PrimaryKey(b, k)
        ts = Set('T', reverse='room')
        ms = Set('T', reverse='rooms')

    class T(db.Entity):
        id = PrimaryKey(int)
        g = Required(int)
        room = room_attr(R, reverse='ts')
        rooms = Set(R, reverse='ms')
    return {'R': R, 'T': T}


@st.composite
def k_data(draw):
    opts = {'room_required': draw(st.booleans())}
    rooms = draw(st.lists(st.sampled_from(ROOMS), unique=True, min_size=0, max_size=4))
    r_rows = [{'b': b, 'k': k, 'v': draw(st.sampled_from([0, 1, 1, 2]))} for (b, k) in sorted(rooms)]
    t_rows = []
    if rooms or not opts['room_required']:
        for i in range(draw(st.integers(0, 6))):
            idx = st.integers(0, len(rooms) - 1)
            if opts['room_required']:
                room = list(sorted(rooms)[draw(idx)])
            else:
                room = draw(st.one_of(st.none(), idx.map(lambda j: list(sorted(rooms)[j])))) if rooms else None
            ms = sorted(draw(st.sets(idx, max_size=3))) if rooms else []
            t_rows.append({'id': i + 1, 'g': draw(st.sampled_from([0, 1, 1, 2])), 'room': room,
                           'rooms': [list(sorted(rooms)[j]) for j in ms]})
    return {'opts': opts, 'R': r_rows, 'T': t_rows}


def k_load(classes, data):
    from pony.orm import db_session
    R, T = classes['R'], classes['T']
    with db_session:
        objs = {}
        for r in data['R']:
            objs[(r['b'], r['k'])] = R(b=r['b'], k=r['k'], v=r['v'])
        for t in data['T']:
            kw = dict(id=t['id'], g=t['g'], rooms=[objs[tuple(x)] for x in t['rooms']])
            if t['room'] is not None:
                kw['room'] = objs[tuple(t['room'])]
            T(**kw)


def k_tables(classes, data):
    R, T = classes['R'], classes['T']

    def tname(t):
        return t if isinstance(t, str) else t[-1]
    out = {}
    out[tname(R._table_)] = ([R.b.columns[0], R.k.columns[0], R.v.columns[0]], [(r['b'], r['k'], r['v']) for r in data['R']])
    rc = list(T.room.columns)
    out[tname(T._table_)] = ([T.id.columns[0], T.g.columns[0]] + rc,
                             [(t['id'], t['g']) + (tuple(t['room']) if t['room'] is not None else (None, None)) for t in data['T']])
    link = tname(T.rooms.table)
    # T.rooms.columns reference R (the items), R.ms.columns reference T
    out[link] = (list(R.ms.columns) + list(T.rooms.columns), [(t['id'],) + tuple(x) for t in data['T'] for x in t['rooms']])
    return out


def k_delete_order(classes):
    R, T = classes['R'], classes['T']
    return [T.rooms.table, T._table_, R._table_]


K_TEMPLATES = ['g_count_room', 'count_room', 'having_count_room', 'id_count_rooms', 'g_count_rooms', 'count_rooms', 'count_r',
               'v_count_r', 'distinct_room', 'distinct_room_if', 'room_in_sub', 'room_not_in_sub', 'r_having_count_ts',
               'r_count_ts', 'r_count_ms', 'g_sum_room_v', 'g_count_room_count_t', 'count_room_if']


def k_queries():
    return st.tuples(st.sampled_from(K_TEMPLATES), st.integers(0, 3)).map(lambda t: {'template': t[0], 'k': t[1]})


def k_text(q):
    k = q['k']
    return {
        'g_count_room': '(t.g, count(t.room)) for t in T',
        'count_room': 'count(t.room) for t in T',
        'count_room_if': 'count(t.room) for t in T if t.g >= K',
        'having_count_room': 't.g for t in T if count(t.room) >= K',
        'id_count_rooms': '(t.id, count(t.rooms)) for t in T',
        'g_count_rooms': '(t.g, count(t.rooms)) for t in T',
        'count_rooms': 'count(t.rooms) for t in T',
        'count_r': 'count(r) for r in R',
        'v_count_r': '(r.v, count(r)) for r in R',
        'distinct_room': 't.room for t in T',
        'distinct_room_if': 't.room for t in T if t.g == K',
        'room_in_sub': 't for t in T if t.room in (r for r in R if r.v >= K)',
        'room_not_in_sub': 't for t in T if t.room not in (r for r in R if r.v >= K)',
        'r_having_count_ts': 'r for r in R if count(r.ts) >= K',
        'r_count_ts': '(r, count(r.ts)) for r in R',
        'r_count_ms': '(r, count(r.ms)) for r in R',
        'g_sum_room_v': '(t.g, sum(t.room.v)) for t in T',
        'g_count_room_count_t': '(t.g, count(t.room), count(t)) for t in T',
    }[q['template']], {'K': k}


def k_reference(data, q):
    """-> (required, optional) rows; entity objects are ('R', (b, k)) / ('T', id)"""
    R = {(r['b'], r['k']): r for r in data['R']}
    T = data['T']
    k = q['k']
    tpl = q['template']
    room = lambda t: tuple(t['room']) if t['room'] is not None else None
    groups = sorted(set(t['g'] for t in T))
    req, opt = [], []
    has_none = any(room(t) is None for t in T)
    if tpl in ('g_count_room', 'g_count_room_count_t', 'having_count_room', 'g_sum_room_v') and has_none:
        # an aggregate through a to-one attribute that is None for some row: the row is kept (NULL ignored by the aggregate) under
        # outer-join semantics and dropped by an inner join, which also changes count(t) and the set of groups: not asserted
        return None
    if tpl in ('g_count_room', 'g_count_room_count_t'):
        for g in groups:
            ts = [t for t in T if t['g'] == g]
            n = len(set(room(t) for t in ts))
            req.append((g, n) if tpl == 'g_count_room' else (g, n, len(ts)))
    elif tpl in ('count_room', 'count_room_if'):
        ts = [t for t in T if tpl == 'count_room' or t['g'] >= k]
        req = [len(set(room(t) for t in ts if room(t) is not None))]
    elif tpl == 'having_count_room':
        req = [g for g in groups if len(set(room(t) for t in T if t['g'] == g)) >= k]
    elif tpl == 'id_count_rooms':
        req = [(t['id'], len(set(tuple(x) for x in t['rooms']))) for t in T]
    elif tpl == 'g_count_rooms':
        req = [(g, len(set(tuple(x) for t in T if t['g'] == g for x in t['rooms']))) for g in groups]
    elif tpl == 'count_rooms':
        # an aggregate over the whole query (as count(x.bs) is for a single-column key): the number of distinct linked rooms
        req = [len(set(tuple(x) for t in T for x in t['rooms']))]
    elif tpl == 'count_r':
        req = [len(R)]
    elif tpl == 'v_count_r':
        req = [(v, len([r for r in R.values() if r['v'] == v])) for v in sorted(set(r['v'] for r in R.values()))]
    elif tpl in ('distinct_room', 'distinct_room_if'):
        req = [('R', x) for x in sorted(set(room(t) for t in T if room(t) is not None and (tpl == 'distinct_room' or t['g'] == k)))]
        if any(room(t) is None and (tpl == 'distinct_room' or t['g'] == k) for t in T):
            opt = [None]
    elif tpl == 'room_in_sub':
        req = [('T', t['id']) for t in T if room(t) is not None and R[room(t)]['v'] >= k]
    elif tpl == 'room_not_in_sub':
        req = [('T', t['id']) for t in T if room(t) is not None and not R[room(t)]['v'] >= k]
        opt = [('T', t['id']) for t in T if room(t) is None]       # None not in (...): Python True, SQL unknown
    elif tpl == 'r_having_count_ts':
        req = [('R', x) for x in sorted(R) if len([t for t in T if room(t) == x]) >= k]
    elif tpl == 'r_count_ts':
        req = [(('R', x), len([t for t in T if room(t) == x])) for x in sorted(R)]
    elif tpl == 'r_count_ms':
        req = [(('R', x), len([t for t in T if list(x) in [list(y) for y in t['rooms']]])) for x in sorted(R)]
    elif tpl == 'g_sum_room_v':
        req = [(g, sum(R[room(t)]['v'] for t in T if t['g'] == g)) for g in groups]
    else:
        raise ValueError(tpl)
    return req, opt


# =====================================================================================================================
# J: Json attribute, chained query methods
# =====================================================================================================================
FLAGS = [True, False, 0, 1, '', 'a', [], [0], {}, {'a': 1}]


def j_schema(db, opts):
    from pony.orm import Required, PrimaryKey, Json

    class D(db.Entity):
        id = PrimaryKey(int)
        rank = Required(int)
        data = Required(Json)
    return {'D': D}


@st.composite
def j_data(draw):
    rows = []
    for i in range(draw(st.integers(0, 6))):
        rows.append({'id': i + 1, 'rank': draw(st.sampled_from([0, 1, 2, 3])),
                     'data': {'flag': draw(st.sampled_from(FLAGS)), 'n': draw(st.sampled_from([0, 1, 2, 3])),
                              's': draw(st.sampled_from(['', 'a', 'b', 'ab']))}})
    return {'opts': {}, 'D': rows}


def j_load(classes, data):
    from pony.orm import db_session
    with db_session:
        for r in data['D']:
            classes['D'](id=r['id'], rank=r['rank'], data=r['data'])


def j_tables(classes, data, wrap):
    D = classes['D']
    t = D._table_
    t = t if isinstance(t, str) else t[-1]
    return {t: ([D.id.columns[0], D.rank.columns[0], D.data.columns[0]], [(r['id'], r['rank'], wrap(r['data'])) for r in data['D']])}


def j_delete_order(classes):
    return [classes['D']._table_]


# conditions: ['truth', key] | ['nottruth', key] | ['cmp', 'n'|'s'|'rank', op, value] | ['and', c, c] | ['or', c, c]
def j_conditions(depth=1):
    cmpop = st.sampled_from(['==', '!=', '<', '<=', '>', '>='])
    atom = st.one_of(
        st.just(['truth', 'flag']), st.just(['truth', 'flag']), st.just(['nottruth', 'flag']), st.just(['nottruth', 'flag']),
        st.just(['truth', 'n']), st.just(['nottruth', 's']),
        st.tuples(cmpop, st.sampled_from([0, 1, 2, 3])).map(lambda t: ['cmp', 'n', t[0], t[1]]),
        st.tuples(st.sampled_from(['==', '!=']), st.sampled_from(['', 'a', 'b', 'ab'])).map(lambda t: ['cmp', 's', t[0], t[1]]),
        st.tuples(cmpop, st.sampled_from([0, 1, 2, 3])).map(lambda t: ['cmp', 'rank', t[0], t[1]]))
    if depth <= 0:
        return atom
    sub = j_conditions(depth - 1)
    return st.one_of(atom, atom, atom, st.tuples(st.sampled_from(['and', 'or']), sub, sub).map(list))


def j_render(c):
    k = c[0]
    if k == 'truth':
        return "d.data[%r]" % c[1]
    if k == 'nottruth':
        return "(not d.data[%r])" % c[1]
    if k == 'cmp':
        left = 'd.rank' if c[1] == 'rank' else 'd.data[%r]' % c[1]
        return '%s %s %r' % (left, c[2], c[3])
    return '(%s %s %s)' % (j_render(c[1]), c[0], j_render(c[2]))


def j_eval(c, row):
    k = c[0]
    doc = row['data']
    if k == 'truth':
        return bool(doc[c[1]])
    if k == 'nottruth':
        return not doc[c[1]]
    if k == 'cmp':
        a = row['rank'] if c[1] == 'rank' else doc[c[1]]
        b = c[3]
        return {'==': a == b, '!=': a != b, '<': a < b, '<=': a <= b, '>': a > b, '>=': a >= b}[c[2]]
    if k == 'and':
        return j_eval(c[1], row) and j_eval(c[2], row)
    return j_eval(c[1], row) or j_eval(c[2], row)


ORDERS = ['d.rank', '-d.rank', 'd.id', "d.data['n']", '(d.rank, d.id)']


@st.composite
def j_queries(draw):
    """{'start': 'select'|'entity', 'cond0': cond|None, 'steps': [['order', expr] | ['filter'|'where', cond]]}"""
    start = draw(st.sampled_from(['select', 'entity']))
    cond0 = draw(st.one_of(st.none(), j_conditions(0))) if start == 'select' else None
    steps = []
    for i in range(draw(st.integers(1, 3))):
        kind = draw(st.sampled_from(['order', 'filter', 'filter', 'where']))
        if kind == 'order':
            steps.append(['order', draw(st.sampled_from(ORDERS))])
        else:
            steps.append([kind, draw(j_conditions(1))])
    return {'start': start, 'cond0': cond0, 'steps': steps}


def j_text(q):
    """the Python expression that builds and runs the query (evaluated with D and select in scope)"""
    if q['start'] == 'select':
        src = 'select(d for d in D%s)' % (' if %s' % j_render(q['cond0']) if q['cond0'] is not None else '')
    else:
        src = 'D.select()'
    for step in q['steps']:
        if step[0] == 'order':
            src += '.order_by(lambda d: %s)' % step[1]
        else:
            src += '.%s(lambda d: %s)' % (step[0], j_render(step[1]))
    return src


def j_reference(data, q):
    rows = []
    for r in data['D']:
        if q['cond0'] is not None and not j_eval(q['cond0'], r):
            continue
        if all(j_eval(s[1], r) for s in q['steps'] if s[0] != 'order'):
            rows.append(('D', r['id']))
    return rows, []


# =====================================================================================================================
@st.composite
def cases(draw):
    if draw(st.booleans()):
        return {'family': 'K', 'data': draw(k_data()), 'query': draw(k_queries())}
    return {'family': 'J', 'data': draw(j_data()), 'query': draw(j_queries())}


# =====================================================================================================================
# worlds (live SQLite with the recording connection of c02_lib; real providers over the fake driver of c02_lib)
# =====================================================================================================================
class Family(object):
    def __init__(self, name, schema, load, delete_order, optkey):
        self.name, self.schema, self.load, self.delete_order, self.optkey = name, schema, load, delete_order, optkey


FAMILIES = {
    'K': Family('K', k_schema, k_load, k_delete_order, lambda opts: bool(opts.get('room_required', True))),
    'J': Family('J', j_schema, j_load, j_delete_order, lambda opts: None),
}


def tables(fam, classes, data, dialect):
    from vlib import sqlemu
    if fam == 'K':
        return k_tables(classes, data)
    if dialect == 'sqlite':
        # SQLiteJsonConverter.json_kwargs: separators (',', ':'), sort_keys, ensure_ascii=False
        return j_tables(classes, data, lambda v: json.dumps(v, separators=(',', ':'), sort_keys=True, ensure_ascii=False))
    return j_tables(classes, data, sqlemu.JsonVal)


def reference(case):
    if case['family'] == 'K':
        return k_reference(case['data'], case['query'])
    return j_reference(case['data'], case['query'])


def query_source(case):
    """-> (python expression that builds and runs the query, parameter dict)"""
    if case['family'] == 'K':
        text, params = k_text(case['query'])
        return 'select(%r, ENV, PARAMS)[:]' % text, params
    return j_text(case['query']) + '[:]', {}


_live, _dial = {}, {}


def live_world(fam, opts):
    from vlib import c02_lib
    F = FAMILIES[fam]
    key = (fam, F.optkey(opts))
    w = _live.get(key)
    if w is None:
        from pony.orm import Database
        db = Database()
        classes = F.schema(db, opts)
        db.bind('sqlite', ':memory:', factory=c02_lib.RecConnection)
        db.generate_mapping(create_tables=True)
        w = _live[key] = World(F, 'sqlite', db, classes, None)
    return w


def dialect_world(fam, dialect, opts):
    from vlib import c02_lib
    F = FAMILIES[fam]
    key = (fam, dialect, F.optkey(opts))
    w = _dial.get(key)
    if w is None:
        from pony.orm import Database
        pool = c02_lib.FakePool(dialect)
        db = Database()
        classes = F.schema(db, opts)
        db.bind(c02_lib.provider_class(dialect), pony_pool_mockup=pool)
        db.generate_mapping(check_tables=False)
        w = _dial[key] = World(F, dialect, db, classes, pool)
    return w


class World(object):
    def __init__(self, F, dialect, db, classes, pool):
        self.F, self.dialect, self.db, self.classes, self.pool = F, dialect, db, classes, pool
        self.log = []

    def reset(self, data):
        from pony.orm import db_session
        if self.pool is not None:
            self.pool.tables = tables(self.F.name, self.classes, data, self.dialect)
            del self.pool.statements[:]
            return
        with db_session:
            con = self.db.get_connection()
            con.log = None
            for t in self.F.delete_order(self.classes):
                con.execute('delete from "%s"' % (t if isinstance(t, str) else t[-1]))
        self.F.load(self.classes, data)
        with db_session:
            self.db.get_connection().log = self.log
        del self.log[:]

    def raw(self, sql, args):
        from pony.orm import db_session
        with db_session:
            con = self.db.get_connection()
            saved, con.log = con.log, None
            try:
                return [tuple(r) for r in con.execute(sql, args).fetchall()]
            finally:
                con.log = saved
