"""C06: small per-dialect SQL lexers, literal decoders, LIKE-pattern decoder and DB-API driver binding models.

Everything here is written from the dialect manuals, not from Pony; it is the trusted base of check C06.

Lexical rules transcribed (the passages the oracles rest on):

* SQLite (sqlite.org/lang_expr.html "Literal Values", sqlite.org/lang_keywords.html): a string constant is formed by
  enclosing the string in single quotes; a single quote within the string is encoded by putting two single quotes in a
  row; C-style backslash escapes are NOT supported.  BLOB literals are X'hex'.  Identifiers: "double quotes" (also
  [brackets] and `backticks` for compatibility), the quote is doubled inside.  Parameters: ?, ?NNN, :AAA, @AAA, $AAA.
  LIKE (lang_expr.html "The LIKE, GLOB, REGEXP ... operators"): % matches any sequence, _ any single character; there is no
  default escape character; with ESCAPE c, c followed by %, _ or c matches that character literally.
* PostgreSQL 16 (sql-syntax-lexical, 4.1.2.1 "String Constants"): '' inside '...' is one quote; with
  standard_conforming_strings = on (default since 9.1) a backslash in an ordinary '...' constant is an ordinary character;
  E'...' constants have C-style escapes (4.1.2.2); $tag$...$tag$ dollar quoting (4.1.2.4); B'...' and X'...' are BIT-STRING
  constants (4.1.2.5), not bytea.  Identifiers (4.1.1): "..." with "" for a quote.  Comments (4.1.5): -- and nested /* */.
  LIKE (functions-matching 9.7.1): "The default escape character is the backslash but a different one can be selected by
  using the ESCAPE clause. To match the escape character itself, write two escape characters."  Interval input (8.5.4):
  'hh:mm:ss[.ffffff]' with HOUR TO SECOND fields; one leading sign applies to the whole time group.
* MySQL 8.0 / MariaDB 10.11, default sql_mode (MySQL manual 9.1.1 "String Literals", MariaDB KB "String Literals"): a
  string is '...' or "..." (ANSI_QUOTES off); '' inside '...' is one quote; "Within a string, certain sequences have special
  meaning unless the NO_BACKSLASH_ESCAPES SQL mode is enabled.  Each of these sequences begins with a backslash (\\), known
  as the escape character": \\0 \\' \\" \\b \\n \\r \\t \\Z \\\\ \\% \\_ ; "For all other escape sequences, backslash is
  ignored"; \\% and \\_ stay two characters outside pattern matching.  Hex literals X'..' / 0x.. (9.1.4).  Identifiers (9.2):
  `...` with `` for a backtick.  Comments (9.7): "# ", "-- " (the double dash must be followed by white space or a control
  character), /* */.  LIKE (12.8.1): "If you do not specify the ESCAPE character, \\ is assumed, unless the
  NO_BACKSLASH_ESCAPES SQL mode is enabled."  Temporal intervals (9.5 "Expressions"): HOUR_SECOND 'HOURS:MINUTES:SECONDS',
  HOUR_MICROSECOND 'HOURS:MINUTES:SECONDS.MICROSECONDS' (the last field is an integer count of microseconds).
* Oracle / standard SQL ('generic'): '' doubling, no backslash escapes; "..." identifiers cannot contain a double quote;
  LIKE has no default escape; with ESCAPE c, c must be followed by %, _ or c (ORA-01424 otherwise).
* DB-API drivers: sqlite3 binds ? by position and requires exactly as many values as placeholders; numeric :N is element
  N-1 of the sequence (PEP 249); named :pN / pyformat %(pN)s look the name up in the mapping; MySQLdb / PyMySQL / psycopg2
  build the statement with `query % args` whenever args is not None (even when empty), so every literal % must be written
  %% and every %s / %(name)s is a placeholder wherever it stands (also inside quotes); any other %x is an error.
"""
import re, datetime, decimal

PH_OPEN, PH_CLOSE = u'\ue000', u'\ue001'      # private-use markers standing for a value interpolated by a format-style driver

DIALECTS = ('sqlite', 'postgres', 'mysql', 'oracle', 'generic')
NATIVE_STYLE = {'sqlite': 'qmark', 'postgres': 'pyformat', 'mysql': 'format', 'oracle': 'named', 'generic': 'qmark'}
STYLES = ('qmark', 'numeric', 'named', 'format', 'pyformat')


class LexError(Exception):
    pass


class DriverError(Exception):
    """the modelled DB-API driver would refuse (or mis-bind) this statement / argument combination"""


class Tok(object):
    __slots__ = ('kind', 'text', 'value', 'pos')

    def __init__(self, kind, text, value=None, pos=0):
        self.kind = kind        # ident | str | hex | bits | num | word | op | ph | comment | bad
        self.text = text
        self.value = value
        self.pos = pos

    def __repr__(self):
        return 'Tok(%s, %r%s)' % (self.kind, self.text, '' if self.value is None else ', %r' % (self.value,))


_WORD_START = re.compile(r'[A-Za-z_]')
_WORD = re.compile(r'[A-Za-z_][A-Za-z0-9_$#]*')
_NUM = re.compile(r'(?:[0-9]+\.?[0-9]*|\.[0-9]+)(?:[eE][+-]?[0-9]+)?')
_OPS3 = ('#>>',)
_OPS2 = ('||', '<>', '<=', '>=', '!=', '::', '#>', '->', '==', '<<', '>>')

_MYSQL_ESC = {'0': '\0', "'": "'", '"': '"', 'b': '\b', 'n': '\n', 'r': '\r', 't': '\t', 'Z': '\x1a', '\\': '\\'}
_PG_E_ESC = {'b': '\b', 'f': '\f', 'n': '\n', 'r': '\r', 't': '\t'}


def _quoted(s, i, q, backslash=False, doubling=True):
    """s[i] == q opens; returns (decoded, index after the closing quote) or raises LexError"""
    n = len(s)
    j = i + 1
    out = []
    while True:
        if j >= n:
            raise LexError('unterminated %s-quoted token starting at offset %d' % (q, i))
        c = s[j]
        if backslash and c == '\\':
            if j + 1 >= n:
                raise LexError('unterminated %s-quoted token (dangling backslash) starting at offset %d' % (q, i))
            e = s[j + 1]
            if backslash == 'mysql':
                if e in _MYSQL_ESC:
                    out.append(_MYSQL_ESC[e])
                elif e in '%_':
                    out.append('\\' + e)
                else:
                    out.append(e)
            else:       # PostgreSQL E'' strings (octal / hex / unicode forms are not needed: treated literally enough)
                out.append(_PG_E_ESC.get(e, e))
            j += 2
            continue
        if c == q:
            if doubling and j + 1 < n and s[j + 1] == q:
                out.append(q)
                j += 2
                continue
            return ''.join(out), j + 1
        out.append(c)
        j += 1


def lex(dialect, s, style=None):
    """-> list of Tok.  Never raises: what cannot be lexed becomes a 'bad' token that swallows the rest."""
    if style is None:
        style = NATIVE_STYLE[dialect]
    toks = []
    i, n = 0, len(s)
    qmarks = 0
    while i < n:
        c = s[i]
        if c.isspace():
            i += 1
            continue
        try:
            # ---- interpolated value of a format-style driver
            if c == PH_OPEN:
                j = s.find(PH_CLOSE, i)
                if j < 0:
                    raise LexError('broken interpolation marker')
                toks.append(Tok('ph', s[i:j + 1], s[i + 1:j], i))
                i = j + 1
                continue
            # ---- comments
            if c == '-' and s.startswith('--', i):
                if dialect != 'mysql' or i + 2 >= n or s[i + 2].isspace() or ord(s[i + 2]) < 32:
                    j = s.find('\n', i)
                    j = n if j < 0 else j
                    toks.append(Tok('comment', s[i:j], None, i))
                    i = j
                    continue
            if c == '#' and dialect == 'mysql':
                j = s.find('\n', i)
                j = n if j < 0 else j
                toks.append(Tok('comment', s[i:j], None, i))
                i = j
                continue
            if c == '/' and s.startswith('/*', i):
                if dialect == 'postgres':          # nested
                    depth, j = 1, i + 2
                    while j < n and depth:
                        if s.startswith('/*', j):
                            depth += 1
                            j += 2
                        elif s.startswith('*/', j):
                            depth -= 1
                            j += 2
                        else:
                            j += 1
                    if depth:
                        raise LexError('unterminated comment at offset %d' % i)
                else:
                    j = s.find('*/', i + 2)
                    if j < 0:
                        raise LexError('unterminated comment at offset %d' % i)
                    j += 2
                toks.append(Tok('comment', s[i:j], None, i))
                i = j
                continue
            # ---- quoted identifiers
            if c == '"' and dialect != 'mysql':
                if dialect in ('oracle', 'generic'):
                    v, j = _quoted(s, i, '"', doubling=False)
                else:
                    v, j = _quoted(s, i, '"')
                toks.append(Tok('ident', s[i:j], v, i))
                i = j
                continue
            if c == '`' and dialect in ('mysql', 'sqlite'):
                v, j = _quoted(s, i, '`')
                toks.append(Tok('ident', s[i:j], v, i))
                i = j
                continue
            if c == '[' and dialect == 'sqlite':
                j = s.find(']', i)
                if j < 0:
                    raise LexError('unterminated [identifier] at offset %d' % i)
                toks.append(Tok('ident', s[i:j + 1], s[i + 1:j], i))
                i = j + 1
                continue
            # ---- string literals
            if c == "'" or (c == '"' and dialect == 'mysql'):
                v, j = _quoted(s, i, c, backslash='mysql' if dialect == 'mysql' else False)
                toks.append(Tok('str', s[i:j], v, i))
                i = j
                continue
            if c in 'xX' and i + 1 < n and s[i + 1] == "'":
                v, j = _quoted(s, i + 1, "'", doubling=False)
                if not re.match(r'^(?:[0-9A-Fa-f]{2})*$', v) and dialect != 'postgres':
                    raise LexError('malformed hex literal %r' % s[i:j])
                if dialect == 'postgres':
                    if not re.match(r'^[0-9A-Fa-f]*$', v):
                        raise LexError('malformed bit-string literal %r' % s[i:j])
                    toks.append(Tok('bits', s[i:j], ''.join(bin(int(h, 16))[2:].zfill(4) for h in v), i))
                else:
                    toks.append(Tok('hex', s[i:j], bytes(bytearray.fromhex(v)), i))
                i = j
                continue
            if c in 'bB' and i + 1 < n and s[i + 1] == "'" and dialect in ('postgres', 'mysql'):
                v, j = _quoted(s, i + 1, "'", doubling=False)
                toks.append(Tok('bits', s[i:j], v, i))
                i = j
                continue
            if c in 'eE' and i + 1 < n and s[i + 1] == "'" and dialect == 'postgres':
                v, j = _quoted(s, i + 1, "'", backslash='pg')
                toks.append(Tok('str', s[i:j], v, i))
                i = j
                continue
            if c in 'nN' and i + 1 < n and s[i + 1] == "'" and dialect in ('mysql', 'oracle', 'generic'):
                v, j = _quoted(s, i + 1, "'", backslash='mysql' if dialect == 'mysql' else False)
                toks.append(Tok('str', s[i:j], v, i))
                i = j
                continue
            if c == '$' and dialect == 'postgres':
                m = re.compile(r'\$([A-Za-z_][A-Za-z0-9_]*)?\$').match(s, i)
                if m:
                    tag = m.group(0)
                    j = s.find(tag, m.end())
                    if j < 0:
                        raise LexError('unterminated dollar-quoted string at offset %d' % i)
                    toks.append(Tok('str', s[i:j + len(tag)], s[m.end():j], i))
                    i = j + len(tag)
                    continue
            # ---- native placeholders (which forms exist depends on the driver's parameter style)
            if c == '?' and (style == 'qmark' or dialect == 'sqlite'):
                m = re.compile(r'\?([0-9]*)').match(s, i)
                toks.append(Tok('ph', m.group(0), ('q', qmarks if not m.group(1) else int(m.group(1)) - 1), i))
                qmarks += 1
                i = m.end()
                continue
            if c == ':' and i + 1 < n and not s.startswith('::', i) and (style in ('numeric', 'named') or dialect == 'sqlite'):
                m = re.compile(r':([0-9]+|[A-Za-z_][A-Za-z0-9_]*)').match(s, i)
                if m:
                    name = m.group(1)
                    toks.append(Tok('ph', m.group(0), ('n', int(name)) if name.isdigit() else ('k', name), i))
                    i = m.end()
                    continue
            if c in '@$' and dialect == 'sqlite':
                m = re.compile(r'[@$]([A-Za-z_][A-Za-z0-9_]*)').match(s, i)
                if m:
                    toks.append(Tok('ph', m.group(0), ('k', m.group(1)), i))
                    i = m.end()
                    continue
            # ---- numbers, words, operators
            if '0' <= c <= '9' or (c == '.' and i + 1 < n and '0' <= s[i + 1] <= '9'):
                if dialect == 'mysql' and s.startswith('0x', i):
                    m = re.compile(r'0x((?:[0-9A-Fa-f]{2})+)').match(s, i)
                    if m:
                        toks.append(Tok('hex', m.group(0), bytes(bytearray.fromhex(m.group(1))), i))
                        i = m.end()
                        continue
                m = _NUM.match(s, i)
                toks.append(Tok('num', m.group(0), None, i))
                i = m.end()
                continue
            if _WORD_START.match(c):
                m = _WORD.match(s, i)
                toks.append(Tok('word', m.group(0).upper(), None, i))
                i = m.end()
                continue
            if s[i:i + 3] in _OPS3:
                toks.append(Tok('op', s[i:i + 3], None, i))
                i += 3
                continue
            if s[i:i + 2] in _OPS2:
                toks.append(Tok('op', s[i:i + 2], None, i))
                i += 2
                continue
            toks.append(Tok('op', c, None, i))
            i += 1
        except LexError as e:
            toks.append(Tok('bad', s[i:], str(e), i))
            break
    return toks


# ---------------------------------------------------------------------------------------------------------------------
# DB-API driver models: (style, sql, args) -> tokens whose 'ph' tokens carry the bound Python value
# ---------------------------------------------------------------------------------------------------------------------

class Bound(object):
    """value of a bound placeholder"""
    __slots__ = ('value', 'key')

    def __init__(self, value, key):
        self.value = value
        self.key = key

    def __repr__(self):
        return 'Bound(%r via %r)' % (self.value, self.key)


def percent_format(sql, args):
    """what `cursor.execute(sql, args)` of a format / pyformat driver builds (args is not None): %s / %(name)s are replaced
    by a marker naming the argument, %% becomes %, anything else is the driver's error.  -> (text, [keys in text order])"""
    out = []
    keys = []
    i, n = 0, len(sql)
    pos = 0
    mode = None
    while i < n:
        c = sql[i]
        if c != '%':
            if c in (PH_OPEN, PH_CLOSE):
                raise DriverError('statement contains the private-use marker character')
            out.append(c)
            i += 1
            continue
        if i + 1 >= n:
            raise DriverError('the statement ends with a single %% (driver: incomplete format): ...%s' % sql[-30:])
        d = sql[i + 1]
        if d == '%':
            out.append('%')
            i += 2
        elif d == 's':
            if mode == 'named':
                raise DriverError('positional %s mixed with named %(name)s placeholders')
            mode = 'pos'
            if isinstance(args, dict):
                raise DriverError('a positional %%s placeholder at offset %d but the arguments are a mapping (driver: '
                                  'TypeError); text around: %r' % (i, sql[max(0, i - 20):i + 12]))
            if pos >= len(args):
                raise DriverError('placeholder %%s number %d at offset %d has no argument (%d supplied): the driver raises '
                                  '"not enough arguments for format string"; text around: %r'
                                  % (pos + 1, i, len(args), sql[max(0, i - 20):i + 12]))
            out.append(PH_OPEN + str(len(keys)) + PH_CLOSE)
            keys.append(pos)
            pos += 1
            i += 2
        elif d == '(':
            j = sql.find(')', i)
            if j < 0 or j + 1 >= n or sql[j + 1] != 's':
                raise DriverError('malformed %%(name)s placeholder at offset %d: %r' % (i, sql[i:i + 20]))
            if mode == 'pos':
                raise DriverError('positional %s mixed with named %(name)s placeholders')
            mode = 'named'
            name = sql[i + 2:j]
            if not isinstance(args, dict):
                raise DriverError('a named placeholder %%(%s)s but the arguments are not a mapping' % name)
            if name not in args:
                raise DriverError('placeholder %%(%s)s has no entry in the argument mapping %r (driver: KeyError)'
                                  % (name, sorted(args)))
            out.append(PH_OPEN + str(len(keys)) + PH_CLOSE)
            keys.append(name)
            i = j + 2
        else:
            raise DriverError('a single %% followed by %r at offset %d is not a placeholder (driver: unsupported format '
                              'character / a literal %% must be written %%%%); text around: %r'
                              % (d, i, sql[max(0, i - 20):i + 12]))
    if mode != 'named' and not isinstance(args, dict) and pos != len(args):
        raise DriverError('%d arguments supplied but the statement has %d %%s placeholders (driver: "not all arguments '
                          'converted during string formatting")' % (len(args), pos))
    return ''.join(out), keys


def bind(dialect, style, sql, args):
    """-> tokens of the statement as the server would see it, placeholders carrying Bound(value, key)."""
    if isinstance(args, list):                 # executemany: judge the first row
        args = args[0] if args else None
    if style in ('format', 'pyformat'):
        if args is None:
            toks = lex(dialect, sql, style)    # no formatting happens; no values can be bound
            return toks
        text, keys = percent_format(sql, args)
        toks = lex(dialect, text, style)
        for t in toks:
            if t.kind == 'ph':
                if not (isinstance(t.value, str) and t.value.isdigit()):
                    raise DriverError('a %s-style statement contains the native placeholder %r' % (style, t.text))
                k = keys[int(t.value)]
                t.value = Bound(args[k], k)
        # a marker swallowed by a string literal / identifier means a placeholder stood inside quotes
        n_ph = sum(1 for t in toks if t.kind == 'ph')
        if n_ph != len(keys):
            inside = [t for t in toks if t.kind in ('str', 'ident', 'comment', 'bad') and PH_OPEN in t.text]
            raise DriverError('%d placeholder(s) were interpolated inside a quoted token, e.g. %r: the driver puts an '
                              'argument there and the remaining arguments shift' % (len(keys) - n_ph,
                                                                                   inside[0].text if inside else '?'))
        if style == 'pyformat' and isinstance(args, dict):
            unused = sorted(set(args) - set(keys))
            if unused:
                raise DriverError('argument mapping has entries %r that no placeholder uses' % unused)
        return toks
    toks = lex(dialect, sql, style)
    phs = [t for t in toks if t.kind == 'ph']
    if args is None:
        if phs:
            raise DriverError('statement has placeholders but no arguments were passed')
        return toks
    if style == 'qmark':
        if isinstance(args, dict):
            raise DriverError('qmark style needs a sequence of arguments, got a mapping')
        for t in phs:
            if t.value[0] != 'q':
                raise DriverError('qmark statement contains the placeholder %r' % t.text)
        if len(phs) != len(args):
            raise DriverError('Incorrect number of bindings supplied: the statement uses %d, %d supplied' % (len(phs), len(args)))
        for t in phs:
            k = t.value[1]
            t.value = Bound(args[k], k)
    elif style == 'numeric':
        if isinstance(args, dict):
            raise DriverError('numeric style needs a sequence of arguments, got a mapping')
        for t in phs:
            if t.value[0] != 'n':
                raise DriverError('numeric statement contains the placeholder %r' % t.text)
            k = t.value[1]
            if k < 1 or k > len(args):
                raise DriverError('placeholder %s is out of range: positions are numbered from 1 and %d arguments were '
                                  'supplied' % (t.text, len(args)))
            t.value = Bound(args[k - 1], k)
    elif style == 'named':
        if not isinstance(args, dict):
            raise DriverError('named style needs a mapping of arguments')
        used = set()
        for t in phs:
            if t.value[0] != 'k':
                raise DriverError('named statement contains the placeholder %r' % t.text)
            k = t.value[1]
            if k not in args:
                raise DriverError('placeholder %s has no entry in the argument mapping %r' % (t.text, sorted(args)))
            used.add(k)
            t.value = Bound(args[k], k)
        unused = sorted(set(args) - used)
        if unused:
            raise DriverError('argument mapping has entries %r that no placeholder uses (ORA-01036)' % unused)
    else:
        raise ValueError(style)
    return toks


# ---------------------------------------------------------------------------------------------------------------------
# literal units
# ---------------------------------------------------------------------------------------------------------------------

class Unit(object):
    """one literal (or bound placeholder) of a statement: kind in str|num|bytes|bits|bool|null|date|datetime|time|interval|param"""
    __slots__ = ('kind', 'value', 'start', 'end', 'note')

    def __init__(self, kind, value, start, end, note=''):
        self.kind, self.value, self.start, self.end, self.note = kind, value, start, end, note

    def __repr__(self):
        return 'Unit(%s %r)' % (self.kind, self.value)


_DATE_RE = re.compile(r'^([0-9]{4})-([0-9]{2})-([0-9]{2})$')
_TS_RE = re.compile(r'^([0-9]{4})-([0-9]{2})-([0-9]{2}) ([0-9]{2}):([0-9]{2}):([0-9]{2})(?:\.([0-9]{1,9}))?$')
_TIME_RE = re.compile(r'^([0-9]{2}):([0-9]{2}):([0-9]{2})(?:\.([0-9]{1,9}))?$')
_IV_RE = re.compile(r'^([+-]?)([0-9]+):([0-9]{1,2}):([0-9]{1,2})(?:\.([0-9]+))?$')


def parse_date(text):
    m = _DATE_RE.match(text)
    if not m:
        raise LexError('%r is not a YYYY-MM-DD date string' % text)
    try:
        return datetime.date(*map(int, m.groups()))
    except ValueError as e:
        raise LexError('%r: %s' % (text, e))


def _micro(frac):
    if frac is None:
        return 0
    if len(frac) > 6 and frac[6:].strip('0'):
        raise LexError('fraction %r is finer than microseconds' % frac)
    return int((frac + '000000')[:6])


def parse_timestamp(text):
    m = _TS_RE.match(text)
    if not m:
        raise LexError('%r is not a YYYY-MM-DD HH:MM:SS[.ffffff] timestamp string' % text)
    g = m.groups()
    try:
        return datetime.datetime(*(list(map(int, g[:6])) + [_micro(g[6])]))
    except ValueError as e:
        raise LexError('%r: %s' % (text, e))


def parse_time(text):
    m = _TIME_RE.match(text)
    if not m:
        raise LexError('%r is not a HH:MM:SS[.ffffff] time string' % text)
    g = m.groups()
    try:
        return datetime.time(int(g[0]), int(g[1]), int(g[2]), _micro(g[3]))
    except ValueError as e:
        raise LexError('%r: %s' % (text, e))


def parse_interval(text, fraction_is_integer_microseconds, allow_fraction=True):
    m = _IV_RE.match(text)
    if not m:
        raise LexError('%r is not a [-]H:M:S[.f] interval string' % text)
    sign, h, mi, s, frac = m.groups()
    if int(mi) > 59 or int(s) > 59:
        raise LexError('%r: minutes / seconds field out of range' % text)
    if frac is not None and not allow_fraction:
        raise LexError('%r has four fields but the interval qualifier names three' % text)
    if frac is None:
        us = 0
    elif fraction_is_integer_microseconds:
        us = int(frac)
        if us > 999999:
            raise LexError('%r: microseconds field out of range' % text)
    else:
        us = _micro(frac)
    td = datetime.timedelta(hours=int(h), minutes=int(mi), seconds=int(s), microseconds=us)
    return -td if sign == '-' else td


def _is_operand_end(t):
    return t is not None and (t.kind in ('ident', 'str', 'hex', 'bits', 'num', 'ph') or (t.kind == 'op' and t.text == ')')
                              or (t.kind == 'word' and t.text in ('NULL', 'TRUE', 'FALSE', 'END')))


def units(dialect, toks):
    """group the literal tokens of a statement into Units, in text order"""
    out = []
    i, n = 0, len(toks)
    while i < n:
        t = toks[i]
        nxt = toks[i + 1] if i + 1 < n else None
        if t.kind == 'word' and t.text in ('DATE', 'TIMESTAMP', 'TIME') and nxt is not None and nxt.kind == 'str' \
                and dialect != 'sqlite':
            try:
                v = {'DATE': parse_date, 'TIMESTAMP': parse_timestamp, 'TIME': parse_time}[t.text](nxt.value)
                out.append(Unit({'DATE': 'date', 'TIMESTAMP': 'datetime', 'TIME': 'time'}[t.text], v, i, i + 2))
            except LexError as e:
                out.append(Unit('bad', None, i, i + 2, str(e)))
            i += 2
            continue
        if t.kind == 'word' and t.text == 'INTERVAL' and nxt is not None and nxt.kind == 'str' and dialect != 'sqlite':
            words = []
            j = i + 2
            while j < n and toks[j].kind == 'word' and toks[j].text in ('HOUR', 'TO', 'SECOND', 'HOUR_SECOND', 'HOUR_MICROSECOND'):
                words.append(toks[j].text)
                j += 1
            try:
                if dialect == 'mysql':
                    if words == ['HOUR_SECOND']:
                        v = parse_interval(nxt.value, True, allow_fraction=False)
                    elif words == ['HOUR_MICROSECOND']:
                        v = parse_interval(nxt.value, True)
                        if '.' not in nxt.value:
                            raise LexError('%r has three fields for HOUR_MICROSECOND (they would be read as '
                                           'MINUTES:SECONDS.MICROSECONDS)' % nxt.value)
                    else:
                        raise LexError('unknown MySQL interval unit %r' % ' '.join(words))
                elif dialect == 'oracle':
                    raise LexError('Oracle interval literals (leading field precision) are not modelled')
                else:
                    if words != ['HOUR', 'TO', 'SECOND']:
                        raise LexError('unknown interval qualifier %r' % ' '.join(words))
                    v = parse_interval(nxt.value, False)
                out.append(Unit('interval', v, i, j))
            except LexError as e:
                out.append(Unit('bad', None, i, j, str(e)))
            i = j
            continue
        if t.kind == 'str' and dialect == 'postgres' and i + 2 < n and toks[i + 1].kind == 'op' and toks[i + 1].text == '::' \
                and toks[i + 2].kind == 'word' and toks[i + 2].text == 'BYTEA':
            # PostgreSQL 8.4.1 "bytea hex format": the string \x followed by two hex digits per byte, cast to bytea
            if re.match(r'^\\x(?:[0-9A-Fa-f]{2})*$', t.value):
                out.append(Unit('bytes', bytes(bytearray.fromhex(t.value[2:])), i, i + 3))
            else:
                out.append(Unit('bad', None, i, i + 3, 'bytea input %r is not in hex format' % t.value))
            i += 3
            continue
        if t.kind == 'str':
            out.append(Unit('str', t.value, i, i + 1))
        elif t.kind == 'hex':
            out.append(Unit('bytes', t.value, i, i + 1))
        elif t.kind == 'bits':
            out.append(Unit('bits', t.value, i, i + 1))
        elif t.kind == 'num':
            neg = False
            start = i
            prev = toks[i - 1] if i > 0 else None
            if prev is not None and prev.kind == 'op' and prev.text == '-' and not _is_operand_end(toks[i - 2] if i > 1 else None):
                neg = True
                start = i - 1
            out.append(Unit('num', ('-' if neg else '') + t.text, start, i + 1))
        elif t.kind == 'word' and t.text in ('TRUE', 'FALSE'):
            out.append(Unit('bool', t.text == 'TRUE', i, i + 1))
        elif t.kind == 'word' and t.text == 'NULL':
            out.append(Unit('null', None, i, i + 1))
        elif t.kind == 'ph':
            out.append(Unit('param', t.value, i, i + 1))
        i += 1
    return out


def denotes(dialect, unit, v):
    """does the literal unit denote the Python value v under the dialect's rules?  -> None or a reason string"""
    if unit.kind == 'bad':
        return 'is not a well-formed literal: ' + unit.note
    if unit.kind == 'param':
        b = unit.value
        got = b.value if isinstance(b, Bound) else b
        if type(got) is not type(v) and not (isinstance(got, (int, float)) and isinstance(v, (int, float))
                                             and not isinstance(got, bool) and not isinstance(v, bool)):
            return 'the bound argument is %r (%s), supplied %r (%s)' % (got, type(got).__name__, v, type(v).__name__)
        if got != v:
            return 'the bound argument is %r, supplied %r' % (got, v)
        return None
    if v is None:
        return None if unit.kind == 'null' else 'denotes a %s, not NULL' % unit.kind
    if isinstance(v, bool):
        if unit.kind == 'bool':
            return None if unit.value == v else 'denotes %r' % unit.value
        if unit.kind == 'num' and dialect != 'postgres':
            return None if unit.value in ('1', '0') and (unit.value == '1') == v else 'denotes the number %s' % unit.value
        return 'denotes a %s, not a boolean' % unit.kind
    if isinstance(v, str):
        if unit.kind != 'str':
            return 'is a %s literal, not a string' % unit.kind
        return None if unit.value == v else 'denotes the string %r' % unit.value
    if isinstance(v, (bytes, bytearray)):
        if unit.kind == 'bits':
            return 'is a bit-string constant (bit(%d) %s), not a binary string' % (len(unit.value), unit.value[:24])
        if unit.kind != 'bytes':
            return 'is a %s literal, not a binary string' % unit.kind
        return None if unit.value == bytes(v) else 'denotes the bytes %r' % unit.value
    if isinstance(v, datetime.datetime):
        if dialect == 'sqlite':
            if unit.kind != 'str':
                return 'is a %s literal, not an ISO-8601 text' % unit.kind
            try:
                got = parse_timestamp(unit.value)
            except LexError as e:
                return str(e)
        else:
            if unit.kind != 'datetime':
                return 'is a %s literal, not a TIMESTAMP literal' % unit.kind
            got = unit.value
        return None if got == v else 'denotes %r' % got
    if isinstance(v, datetime.date):
        if dialect == 'sqlite':
            if unit.kind != 'str':
                return 'is a %s literal, not an ISO-8601 text' % unit.kind
            try:
                got = parse_date(unit.value)
            except LexError as e:
                return str(e)
        else:
            if unit.kind != 'date':
                return 'is a %s literal, not a DATE literal' % unit.kind
            got = unit.value
        return None if got == v else 'denotes %r' % got
    if isinstance(v, datetime.time):
        if dialect == 'sqlite':
            if unit.kind != 'str':
                return 'is a %s literal, not an ISO-8601 text' % unit.kind
            try:
                got = parse_time(unit.value)
            except LexError as e:
                return str(e)
        else:
            if unit.kind != 'time':
                return 'is a %s literal, not a TIME literal' % unit.kind
            got = unit.value
        return None if got == v else 'denotes %r' % got
    if isinstance(v, datetime.timedelta):
        if dialect == 'sqlite':
            # no interval type: Pony's storage convention is a REAL number of days
            if unit.kind != 'num':
                return 'is a %s literal, not a number of days' % unit.kind
            try:
                got = datetime.timedelta(days=float(unit.value))
            except (ValueError, OverflowError) as e:
                return 'number of days %s: %s' % (unit.value, e)
            return None if got == v else 'denotes %r days = %r' % (unit.value, got)
        if unit.kind != 'interval':
            return 'is a %s literal, not an INTERVAL literal' % unit.kind
        return None if unit.value == v else 'denotes %r' % unit.value
    if isinstance(v, int):
        if unit.kind != 'num' or not re.match(r'^-?[0-9]+$', unit.value):
            return 'is not an integer literal (%s %r)' % (unit.kind, unit.value)
        return None if int(unit.value) == v else 'denotes %s' % unit.value
    if isinstance(v, float):
        if unit.kind != 'num':
            return 'is a %s literal, not a number' % unit.kind
        return None if float(unit.value) == v else 'denotes %r' % float(unit.value)
    if isinstance(v, decimal.Decimal):
        if unit.kind != 'num':
            return 'is a %s literal, not a number' % unit.kind
        return None if decimal.Decimal(unit.value) == v else 'denotes %s' % unit.value
    raise TypeError(type(v))


# ---------------------------------------------------------------------------------------------------------------------
# LIKE patterns
# ---------------------------------------------------------------------------------------------------------------------

DEFAULT_LIKE_ESCAPE = {'sqlite': None, 'postgres': '\\', 'mysql': '\\', 'oracle': None, 'generic': None}


def like_decode(dialect, pattern, escape):
    """-> list of 'ANY' | 'ONE' | ('lit', ch), consecutive ANYs merged; raises LexError when the server would"""
    if escape is None:
        escape = DEFAULT_LIKE_ESCAPE[dialect]
    elif len(escape) != 1:
        if escape == '' and dialect in ('postgres', 'mysql'):
            escape = None                     # ESCAPE '' switches escaping off
        else:
            raise LexError('ESCAPE expression %r must be a single character' % escape)
    out = []
    i, n = 0, len(pattern)
    while i < n:
        c = pattern[i]
        if escape is not None and c == escape:
            if i + 1 >= n:
                if dialect == 'mysql':
                    out.append(('lit', c))    # a trailing escape character matches itself in MySQL
                    i += 1
                    continue
                raise LexError('LIKE pattern %r ends with the escape character' % pattern)
            d = pattern[i + 1]
            if dialect in ('oracle', 'generic') and d not in ('%', '_', escape):
                raise LexError('ORA-01424: missing or illegal character following the escape character in %r' % pattern)
            out.append(('lit', d))
            i += 2
        elif c == '%':
            if not out or out[-1] != 'ANY':
                out.append('ANY')
            i += 1
        elif c == '_':
            out.append('ONE')
            i += 1
        else:
            out.append(('lit', c))
            i += 1
    return out


def like_expected(op, needle):
    lits = [('lit', ch) for ch in needle]
    if op in ('contains', 'not_contains'):
        return ['ANY'] + lits + ['ANY'] if lits else ['ANY']
    if op == 'startswith':
        return lits + ['ANY']
    if op == 'endswith':
        return ['ANY'] + lits
    raise ValueError(op)


def like_show(pat):
    return ' '.join(x if isinstance(x, str) else repr(x[1]) for x in pat)


class ExprError(Exception):
    pass


def eval_string_expr(toks, i):
    """evaluate the string expression starting at toks[i] built from string literals, bound placeholders, ||, concat(...),
    replace(a, b, c) and parentheses.  -> (python str, index of the first token not consumed)"""
    def term(i):
        if i >= len(toks):
            raise ExprError('expression ends early')
        t = toks[i]
        if t.kind == 'str':
            return t.value, i + 1
        if t.kind == 'ph':
            v = t.value.value if isinstance(t.value, Bound) else t.value
            if not isinstance(v, str):
                raise ExprError('placeholder bound to the non-string %r' % (v,))
            return v, i + 1
        if t.kind == 'op' and t.text == '(':
            v, j = expr(i + 1)
            if j >= len(toks) or toks[j].text != ')':
                raise ExprError('missing )')
            return v, j + 1
        if t.kind == 'word' and t.text in ('REPLACE', 'CONCAT') and i + 1 < len(toks) and toks[i + 1].text == '(':
            args = []
            j = i + 2
            while True:
                v, j = expr(j)
                args.append(v)
                if j < len(toks) and toks[j].kind == 'op' and toks[j].text == ',':
                    j += 1
                    continue
                break
            if j >= len(toks) or toks[j].text != ')':
                raise ExprError('missing ) after the arguments of %s' % t.text)
            if t.text == 'REPLACE':
                if len(args) != 3:
                    raise ExprError('replace() with %d arguments' % len(args))
                if args[1] == '':
                    return args[0], j + 1
                return args[0].replace(args[1], args[2]), j + 1
            return ''.join(args), j + 1
        raise ExprError('token %r is not part of a modelled string expression' % (t,))

    def expr(i):
        v, j = term(i)
        while j < len(toks) and toks[j].kind == 'op' and toks[j].text == '||':
            w, j = term(j + 1)
            v = v + w
        return v, j

    return expr(i)


# ---------------------------------------------------------------------------------------------------------------------
# statement structure
# ---------------------------------------------------------------------------------------------------------------------

def shape(toks, drop_escape=True):
    """token-kind sequence: literals / identifiers / placeholders by kind only, words and operators with their text"""
    out = []
    i = 0
    while i < len(toks):
        t = toks[i]
        if drop_escape and t.kind == 'word' and t.text == 'ESCAPE' and i + 1 < len(toks) and toks[i + 1].kind == 'str':
            i += 2
            continue
        if t.kind in ('word', 'op'):
            out.append(t.text)
        elif t.kind == 'bad':
            out.append('<bad:%s>' % t.value)
        else:
            out.append('<%s>' % t.kind)
        i += 1
    return out


def shape_diff(a, b):
    """first difference of two shapes, for messages"""
    k = 0
    while k < min(len(a), len(b)) and a[k] == b[k]:
        k += 1
    return k, a[max(0, k - 3):k + 4], b[max(0, k - 3):k + 4]
