"""C26 generator: entity-diagram specs as pure JSON data (block B1 of DESIGN.md, restricted to what matters for DDL).

A case is {'dialect': 'sqlite'|'postgres'|'mysql'|'oracle', 'spec': {'entities': [E, ...]}} with

  E = {'name': str, 'bases': [entity names], 'table': None | str | [schema, name], 'disc_value': None | str | int,
       'attrs': [A, ...], 'pk': None | [attr names], 'keys': [[attr names]], 'indexes': [[attr names]]}
  A = {'name': str, 'cls': 'PrimaryKey'|'Required'|'Optional'|'Set'|'Discriminator', 'type': scalar tag | 'E:<entity>',
       'opts': {...}}     # opts hold only JSON values; see c26_model.build_attr for their meaning

Specs are built BY CONSTRUCTION to satisfy the restrictions of EntityMeta.__init__, Attribute._init_, Index._init_,
Collection._init_, _link_reverse_attrs_, Attribute.linked, generate_mapping (read from pony/orm/core.py):
 * entity names are identifiers starting with a capital letter, unique; attribute names are identifiers that do not
   both start and end with '_' and do not shadow names of pony.orm.core.Entity; no 'id' unless it is the pk;
 * one primary key per hierarchy, only in the root; pk attributes are Required, not float, not lazy/volatile;
   composite-pk references only point to entities defined EARLIER (no recursion in _get_pk_columns_);
 * subclasses never say nullable=False, never define a Discriminator or a pk, never give _table_;
 * float never unique / in a key / in an index; Set never unique / in a key; unique Optional never nullable=False;
   Optional of a non-string type never nullable=False;
 * both ends of a relationship exist and name each other when ambiguous; 1-1 has at most one Required end;
   cascade_delete on at most one end and never on the end whose reverse is a Set; column(s)= counts match the target pk width;
   column=/columns= never on the Set side of 1-n; reverse_column(s)= only on symmetric Sets; table= equal on both m2m ends;
 * composite keys / indexes use >= 2 distinct column-holding, non-float, non-Set attributes of the entity itself
   or its bases, and no two of them (nor the pk) use the same attribute list.
Names are unique by construction after case folding and truncation to the dialect limit unless the spec draws
collide=True (about 1 spec in 6), where near-identical / case-variant names are allowed on purpose.
One deliberate exception: about a third of the explicit many-to-many table= names reuse a name that is already taken in the
schema (an entity's explicit _table_, an entity's default table name, or the explicit link table of an earlier relationship),
declared on either end or both: such a declaration cannot be mapped, Pony has to reject it (and must never rename it).
Entities whose primary key spans several columns (composite, or ONE reference to such an entity) are preferred as targets of
pk references and as ends of many-to-many relationships, so that multi-column link-table halves with default names are common.
"""
from hypothesis import strategies as st

LIMITS = {'sqlite': 1024, 'postgres': 63, 'mysql': 64, 'oracle': 30}
DIALECTS = ['sqlite', 'sqlite', 'postgres', 'mysql', 'oracle']

# names that would shadow attributes/methods of pony.orm.core.Entity or have a special meaning
RESERVED_ATTRS = {'id', 'classtype', 'get', 'set', 'select', 'delete', 'flush', 'load', 'exists', 'to_dict', 'to_json',
                  'get_pk', 'describe', 'drop_table', 'get_by_sql', 'select_by_sql', 'select_random', 'get_for_update',
                  'before_insert', 'before_update', 'before_delete', 'after_insert', 'after_update', 'after_delete',
                  'find_updated_attributes', 'mro'}

ENTITY_STEMS = ['A', 'B', 'C', 'D', 'Item', 'ITEM', 'Node', 'Tag', 'Grp', 'Student', 'Group', 'Course', 'X1', 'Ab', 'AB',
                'Abc', 'Order', 'User', 'Table', 'Index']
ATTR_STEMS = ['a', 'b', 'c', 'x', 'y', 'name', 'Name', 'NAME', 'val', 'Val', 'grp', 'item', 'Item', 'tag', 'node', 'data',
              'info', 'key1', 'k2', 'order', 'group', 'user', 'number', 'select', 'from_', 'ref', 'ref2', 'parent', 'kids',
              'link', 'links', 'peer', 'peers', 'a_b', 'a_b_2', 'x_2', 'date', 'size', 'level', 'comment']
ATTR_STEMS = [s for s in ATTR_STEMS if s not in RESERVED_ATTRS]
EXPLICIT_STEMS = ['tbl', 't1', 'T1', 'My Table', 'weird"name', "it's", 'MiXeD', 'mixed', 'UPPER', 'upper', 'with`tick',
                  'sel ect', 'col', 'Col', 'COL', 'c1', 'c2', 'x_2', 'a b', 'semi;colon', 'paren(s)', 'dot.ted', 'name', 'Name',
                  'order', 'group', 'user', 'idx_1', 'fk_1', 'pk_t1']
LONG_ENTITY_STEMS = ['Longentityname', 'Verylongclassnameforanentity']
LONG_ATTR_STEMS = ['longattributename', 'very_long_attribute_name_', 'LongMixedCaseAttr']
LONG_EXPLICIT_STEMS = ['long explicit name ', 'LongExplicitName', 'long_explicit_']

SCALARS = ['int', 'str', 'float', 'bool', 'Decimal', 'date', 'datetime', 'time', 'timedelta', 'UUID', 'bytes', 'Json',
           'LongStr', 'IntArray', 'StrArray']
KEYABLE = ['int', 'str', 'Decimal', 'date', 'datetime', 'UUID', 'time']     # may be pk / unique / in a key
INDEXABLE = KEYABLE + ['bool', 'timedelta']
NO_ARRAYS = ('mysql', 'oracle')            # Array types: NotImplementedError there (documented), not worth the rejections
PK_TYPES = ['int', 'int', 'str', 'str', 'date', 'UUID', 'Decimal']


def fold_key(name, limit):
    return name[:limit].lower()


class Namer(object):
    """draws names; remembers the ones used per scope (exact, or folded+truncated unless collide)"""

    def __init__(self, draw, dialect, collide):
        self.draw = draw
        self.dialect = dialect
        self.limit = LIMITS[dialect]
        self.collide = collide
        self.used = {}
        self.long_rate = draw(st.sampled_from([0, 0, 0, 1, 2, 4]))    # out of 10

    def key(self, name):
        return name if self.collide else fold_key(name, self.limit)

    def _long(self, stems, capital):
        d = self.draw
        limit = self.limit
        if self.dialect == 'sqlite':
            limit = d(st.sampled_from([30, 40, 63, 63, 64, 64, 70, 70, 100, 1024]))
        L = max(4, limit + d(st.sampled_from([-6, -4, -3, -2, -1, 0, 1, 2, 6])))
        stem = d(st.sampled_from(stems))
        body = (stem * (L // len(stem) + 1))[:L - 1] + d(st.sampled_from('abXY12'))
        if capital:
            body = body[0].upper() + body[1:]
        return body

    def fresh(self, scopes, stems, long_stems, capital=False, ident=True, extra_exact=()):
        """a name unused in every scope of `scopes`"""
        d = self.draw
        for attempt in range(8):
            if d(st.integers(0, 9)) < self.long_rate:
                name = self._long(long_stems, capital)
            else:
                name = d(st.sampled_from(stems))
                if attempt >= 2 or d(st.integers(0, 5)) == 0:
                    name = name + str(d(st.integers(1, 9)))
            if ident and (name.startswith('_') and name.endswith('_')):
                continue
            if name in extra_exact:
                continue
            k = self.key(name)
            if any(k in self.used.setdefault(s, set()) for s in scopes):
                continue
            break
        else:
            n = 1
            while True:
                name = '%s%d' % ('Zz' if capital else 'zz', n)
                k = self.key(name)
                if not any(k in self.used.setdefault(s, set()) for s in scopes) and name not in extra_exact:
                    break
                n += 1
        for s in scopes:
            self.used.setdefault(s, set()).add(k)
        return name

    def entity(self):
        return self.fresh(['entity', 'table'], ENTITY_STEMS, LONG_ENTITY_STEMS, capital=True)

    def attr(self, hierarchy):
        # attribute names are unique within the whole hierarchy (one table, and pony forbids clashes between siblings);
        # the column scope of the table is shared with explicit column names
        return self.fresh(['attr:' + hierarchy, 'col:' + hierarchy], ATTR_STEMS, LONG_ATTR_STEMS, extra_exact=RESERVED_ATTRS)

    def table(self):
        return self.fresh(['table'], EXPLICIT_STEMS, LONG_EXPLICIT_STEMS, ident=False)

    def column(self, table_scope):
        return self.fresh(['col:' + table_scope], EXPLICIT_STEMS, LONG_EXPLICIT_STEMS, ident=False)

    def constraint(self):
        return self.fresh(['table', 'constraint'], EXPLICIT_STEMS, LONG_EXPLICIT_STEMS, ident=False)


def scalar_opts(draw, tag):
    o = {}
    if tag == 'str' and draw(st.integers(0, 3)) == 0:
        o['max_len'] = draw(st.sampled_from([8, 40, 255]))
    if tag == 'int' and draw(st.integers(0, 3)) == 0:
        o['size'] = draw(st.sampled_from([8, 16, 24, 32, 64]))
        if o['size'] != 64 and draw(st.booleans()):
            o['unsigned'] = True
    if tag == 'Decimal' and draw(st.integers(0, 2)) == 0:
        o['precision'] = draw(st.sampled_from([6, 12, 20]))
        o['scale'] = draw(st.sampled_from([1, 2, 4]))
    if tag in ('datetime', 'time', 'timedelta') and draw(st.integers(0, 4)) == 0:
        o['precision'] = 0
    return o


@st.composite
def cases(draw, dialects=None):
    dialect = draw(st.sampled_from(dialects or DIALECTS))
    collide = draw(st.integers(0, 5)) == 0
    nm = Namer(draw, dialect, collide)
    n_ent = draw(st.integers(1, 4))
    qualify = draw(st.integers(0, 11)) == 0            # schema-qualified table names everywhere / somewhere
    schema_name = {'sqlite': 'main', 'postgres': 'public', 'mysql': 'testdb', 'oracle': 'SCOTT'}[dialect]
    scalars = [t for t in SCALARS if not (t.endswith('Array') and dialect in NO_ARRAYS)]
    ents = []
    by_name = {}
    root_of = {}
    pk_width = {}          # root name -> number of pk columns
    pk_keyable = {}

    def hierarchy_members(root):
        return [e for e in ents if root_of[e['name']] == root]

    # ---- entities, inheritance, primary keys, scalar attributes ---------------------------------------------------
    for i in range(n_ent):
        name = nm.entity()
        e = {'name': name, 'bases': [], 'table': None, 'disc_value': None, 'attrs': [], 'pk': None, 'keys': [], 'indexes': []}
        if i > 0 and draw(st.integers(0, 3)) == 0:
            base = draw(st.sampled_from(ents))
            e['bases'] = [base['name']]
            root = root_of[base['name']]
            # diamond: a second base from the same hierarchy that is neither ancestor nor descendant of the first
            others = [x for x in hierarchy_members(root) if x is not base and x['bases']
                      and not _related(by_name, x['name'], base['name'])]
            if others and draw(st.booleans()):
                e['bases'].append(draw(st.sampled_from(others))['name'])
            root_of[name] = root
        else:
            root_of[name] = name
        by_name[name] = e
        ents.append(e)
        is_root = root_of[name] == name
        hscope = root_of[name]

        if is_root:
            if qualify and (dialect == 'sqlite' or draw(st.booleans())):
                e['table'] = [schema_name, nm.table()]
            elif draw(st.integers(0, 3)) == 0:
                e['table'] = nm.table()
            earlier_roots = [x for x in ents[:-1]]
            pk_kinds = ['implicit', 'implicit', 'implicit', 'single', 'single', 'auto', 'composite', 'composite_ref',
                        'single_ref', 'single_ref']
            if any(pk_width[root_of[x['name']]] > 1 for x in earlier_roots):
                pk_kinds += ['single_ref', 'single_ref', 'composite_ref']      # references to a multi-column pk are the rare shape
            kind = draw(st.sampled_from(pk_kinds))
            if kind in ('composite_ref', 'single_ref') and not earlier_roots:
                kind = 'composite'
            wide_roots = [x for x in earlier_roots if pk_width[root_of[x['name']]] > 1]
            if kind in ('composite_ref', 'single_ref') and wide_roots and draw(st.integers(0, 3)):
                earlier_roots = wide_roots      # a reference to a multi-column primary key
            if kind == 'implicit':
                pk_width[name] = 1
            elif kind in ('single', 'auto'):
                tag = 'int' if kind == 'auto' else draw(st.sampled_from(PK_TYPES))
                a = {'name': 'id' if draw(st.booleans()) else nm.attr(hscope),
                     'cls': 'PrimaryKey', 'type': tag, 'opts': scalar_opts(draw, tag)}
                if kind == 'auto':
                    a['opts']['auto'] = True
                    a['opts'].pop('unsigned', None)
                if draw(st.integers(0, 4)) == 0:
                    a['opts']['column'] = nm.column(hscope)
                e['attrs'].append(a)
                pk_width[name] = 1
            elif kind == 'single_ref':
                target = draw(st.sampled_from(earlier_roots))
                a = {'name': nm.attr(hscope), 'cls': 'PrimaryKey', 'type': 'E:' + target['name'], 'opts': {}}
                e['attrs'].append(a)
                pk_width[name] = pk_width[root_of[target['name']]]
                e['_pending_rev'] = [(a, target['name'])]
            else:
                parts = []
                w = 0
                if kind == 'composite_ref':
                    target = draw(st.sampled_from(earlier_roots))
                    a = {'name': nm.attr(hscope), 'cls': 'Required', 'type': 'E:' + target['name'], 'opts': {}}
                    e['attrs'].append(a)
                    parts.append(a['name'])
                    w += pk_width[root_of[target['name']]]
                    e['_pending_rev'] = [(a, target['name'])]
                for _ in range(draw(st.integers(1 if parts else 2, 3 if parts else 3))):
                    tag = draw(st.sampled_from(PK_TYPES))
                    a = {'name': nm.attr(hscope), 'cls': 'Required', 'type': tag, 'opts': scalar_opts(draw, tag)}
                    if draw(st.integers(0, 5)) == 0:
                        a['opts']['column'] = nm.column(hscope)
                    e['attrs'].append(a)
                    parts.append(a['name'])
                    w += 1
                e['pk'] = draw(st.permutations(parts))
                pk_width[name] = w
            # discriminator
            dk = draw(st.sampled_from(['none', 'none', 'none', 'value', 'attr_str', 'attr_int']))
            if dk == 'value':
                e['disc_value'] = draw(st.sampled_from(['root', 'R', name]))
            elif dk in ('attr_str', 'attr_int'):
                a = {'name': nm.attr(hscope), 'cls': 'Discriminator', 'type': 'str' if dk == 'attr_str' else 'int', 'opts': {}}
                if draw(st.integers(0, 3)) == 0:
                    a['opts']['column'] = nm.column(hscope)
                e['attrs'].append(a)
                e['disc_value'] = (1000 + i) if dk == 'attr_int' else draw(st.sampled_from([None, 'v%d' % i]))
                e['_disc_int'] = dk == 'attr_int'
        else:
            root = by_name[root_of[name]]
            if root.get('_disc_int'):
                e['disc_value'] = 1000 + i
            elif draw(st.integers(0, 3)) == 0:
                e['disc_value'] = 'v%d' % i

        for _ in range(draw(st.integers(0, 4))):
            tag = draw(st.sampled_from(scalars))
            required = draw(st.booleans())
            a = {'name': nm.attr(hscope), 'cls': 'Required' if required else 'Optional', 'type': tag,
                 'opts': scalar_opts(draw, tag)}
            o = a['opts']
            if tag in KEYABLE and draw(st.integers(0, 4)) == 0:
                o['unique'] = True
            if tag in INDEXABLE and 'unique' not in o and draw(st.integers(0, 5)) == 0:
                o['index'] = draw(st.sampled_from([True, True, 'name']))
                if o['index'] == 'name':
                    o['index'] = nm.constraint()
            elif 'unique' in o and draw(st.integers(0, 5)) == 0:
                o['index'] = True
            if not required:
                if draw(st.integers(0, 4)) == 0:
                    o['nullable'] = True
                elif tag in ('str', 'LongStr') and is_root and 'unique' not in o and dialect != 'oracle' and draw(st.integers(0, 5)) == 0:
                    o['nullable'] = False
            if draw(st.integers(0, 5)) == 0:
                o['column'] = nm.column(hscope)
            if draw(st.integers(0, 9)) == 0:
                o['lazy'] = True
            if tag in ('int', 'str') and 'unique' not in o and draw(st.integers(0, 7)) == 0:
                o['default'] = 7 if tag == 'int' else 'dflt'
            e['attrs'].append(a)

    # ---- relationships ----------------------------------------------------------------------------------------------
    def width_of(ename):
        return pk_width[root_of[ename]]

    def add_attr(e, a):
        e['attrs'].append(a)
        return a

    def col_names(e, n):
        return [nm.column(root_of[e['name']]) for _ in range(n)]

    pair_count = {}

    def note_pair(x, y):
        k = tuple(sorted([x, y]))
        pair_count[k] = pair_count.get(k, 0) + 1

    # reverse ends for references that are part of primary keys
    for e in list(ents):
        for (a, tname) in e.pop('_pending_rev', []):
            t = by_name[tname]
            rk = draw(st.sampled_from(['set', 'set', 'optional']))
            r = {'name': nm.attr(root_of[tname]), 'cls': 'Set' if rk == 'set' else 'Optional', 'type': 'E:' + e['name'],
                 'opts': {'reverse': a['name']}}
            a['opts']['reverse'] = r['name']
            if width_of(tname) > 1 and draw(st.integers(0, 3)) == 0:
                a['opts']['columns'] = col_names(e, width_of(tname))
            elif width_of(tname) == 1 and draw(st.integers(0, 4)) == 0:
                a['opts']['column'] = nm.column(root_of[e['name']])
            add_attr(t, r)
            note_pair(e['name'], tname)
    for e in ents:
        e.pop('_disc_int', None)

    kinds = ['o2m_req', 'o2m_req', 'o2m_opt', 'o2m_opt', 'o2o_req', 'o2o_opt', 'm2m', 'm2m', 'm2m', 'self_tree',
             'self_sym_m2m', 'self_sym_o2o', 'self_m2m']
    link_tables = []           # explicit (unqualified) link-table names used so far

    def default_table_guess(ename):
        n = {'sqlite': ename, 'postgres': ename.lower(), 'mysql': ename.lower(), 'oracle': ename.upper()}[dialect]
        return n[:LIMITS[dialect]]

    def link_table_name():
        """a fresh explicit link-table name or, one time in three, a name that is already taken in the schema"""
        taken = [x['table'] for x in ents if isinstance(x['table'], str)]
        taken += [default_table_guess(x['name']) for x in ents if not x['bases'] and x['table'] is None]
        taken += link_tables
        if taken and draw(st.integers(0, 2)) == 0:
            t = draw(st.sampled_from(taken))
        else:
            t = nm.table()
        link_tables.append(t)
        return t

    wide_ents = [x for x in ents if pk_width[root_of[x['name']]] > 1]
    # ... of which: the primary key is ONE attribute (a reference) that spans several columns
    wide_single = [x for x in wide_ents if not by_name[root_of[x['name']]]['pk']]
    # half of the specs that contain an entity with a multi-column primary key get a many-to-many relationship on such an
    # entity for sure (a link-table half that spans several columns), preferably one whose pk is a single wide reference
    planned = []
    if wide_ents and draw(st.booleans()):
        planned.append((draw(st.sampled_from(['m2m', 'm2m', 'self_m2m', 'self_sym_m2m'])),
                        draw(st.sampled_from(wide_single if wide_single and draw(st.integers(0, 3)) else wide_ents))))
    for k_rel in range(len(planned) + draw(st.integers(0, 4 - len(planned)))):
        if k_rel < len(planned):
            kind, e1 = planned[k_rel]
        else:
            kind = draw(st.sampled_from(kinds))
            e1 = draw(st.sampled_from(ents))
            if kind in ('m2m', 'self_m2m', 'self_sym_m2m') and wide_ents and draw(st.integers(0, 2)) == 0:
                e1 = draw(st.sampled_from(wide_single if wide_single and draw(st.booleans()) else wide_ents))
        e2 = e1 if kind.startswith('self') else draw(st.sampled_from(ents))
        if kind == 'm2m' and draw(st.booleans()):
            e1, e2 = e2, e1
        n1, n2 = e1['name'], e2['name']
        s1, s2 = root_of[n1], root_of[n2]
        note_pair(n1, n2)
        explicit_reverse = True      # always safe; implicit reverse only for the first relationship of a distinct pair
        if n1 != n2 and pair_count[tuple(sorted([n1, n2]))] == 1 and not _hier_related(by_name, root_of, n1, n2):
            explicit_reverse = draw(st.booleans())
        sub1 = s1 != n1
        if kind in ('o2m_req', 'o2m_opt', 'self_tree'):
            # e1 holds the reference (child), e2 the Set (parent)
            req = kind == 'o2m_req'
            c = {'name': nm.attr(s1), 'cls': 'Required' if req else 'Optional', 'type': 'E:' + n2, 'opts': {}}
            p = {'name': nm.attr(s2), 'cls': 'Set', 'type': 'E:' + n1, 'opts': {}}
            w = width_of(n2)
            r = draw(st.integers(0, 9))
            if r == 0 and w > 1:
                c['opts']['columns'] = col_names(e1, w)
            elif r <= 1 and w == 1:
                c['opts']['column'] = nm.column(s1)
            elif r == 2 and w == 1:
                c['opts']['columns'] = col_names(e1, 1)
            r = draw(st.integers(0, 9))
            if r == 0:
                c['opts']['index'] = False
            elif r == 1:
                c['opts']['index'] = nm.constraint()
            elif r == 2:
                c['opts']['index'] = True
            if draw(st.integers(0, 6)) == 0:
                c['opts']['fk_name'] = nm.constraint()
            if not req and draw(st.integers(0, 5)) == 0:
                c['opts']['nullable'] = True
            if draw(st.integers(0, 3)) == 0:
                p['opts']['cascade_delete'] = draw(st.booleans())
            if draw(st.integers(0, 9)) == 0:
                c['opts']['unique'] = True        # (a one-to-many narrowed by a unique constraint: still legal)
                c['opts'].pop('index', None)
            if draw(st.integers(0, 9)) == 0:
                c['opts']['lazy'] = True
            if explicit_reverse or kind == 'self_tree':
                c['opts']['reverse'] = p['name']
                p['opts']['reverse'] = c['name']
            add_attr(e1, c)
            add_attr(e2, p)
        elif kind in ('o2o_req', 'o2o_opt', 'self_sym_o2o'):
            if kind == 'self_sym_o2o':
                a = {'name': nm.attr(s1), 'cls': 'Optional', 'type': 'E:' + n1, 'opts': {}}
                a['opts']['reverse'] = a['name']
                if draw(st.integers(0, 4)) == 0 and width_of(n1) == 1:
                    a['opts']['column'] = nm.column(s1)
                add_attr(e1, a)
                continue
            req = kind == 'o2o_req'
            a = {'name': nm.attr(s1), 'cls': 'Required' if req else 'Optional', 'type': 'E:' + n2, 'opts': {}}
            b = {'name': nm.attr(s2), 'cls': 'Optional', 'type': 'E:' + n1, 'opts': {}}
            w = width_of(n2)
            r = draw(st.integers(0, 7))
            if r == 0 and w > 1:
                a['opts']['columns'] = col_names(e1, w)
            elif r <= 1 and w == 1:
                a['opts']['column'] = nm.column(s1)
            r = draw(st.integers(0, 9))
            if r == 0:
                a['opts']['index'] = False
            elif r == 1:
                a['opts']['index'] = nm.constraint()
            if draw(st.integers(0, 6)) == 0:
                a['opts']['fk_name'] = nm.constraint()
            r = draw(st.integers(0, 5))
            if r == 0:
                b['opts']['cascade_delete'] = draw(st.booleans())      # on the end that holds no column
            elif r == 1 and req:
                a['opts']['cascade_delete'] = draw(st.booleans())
            if explicit_reverse or n1 == n2:
                a['opts']['reverse'] = b['name']
                b['opts']['reverse'] = a['name']
            add_attr(e1, a)
            add_attr(e2, b)
        elif kind in ('m2m', 'self_m2m', 'self_sym_m2m'):
            if kind == 'self_sym_m2m':
                a = {'name': nm.attr(s1), 'cls': 'Set', 'type': 'E:' + n1, 'opts': {}}
                a['opts']['reverse'] = a['name']
                w = width_of(n1)
                tscope = 'm2m:%d' % len(pair_count) + a['name']
                r = draw(st.integers(0, 5))
                if r == 0:
                    a['opts']['columns'] = [nm.column(tscope) for _ in range(w)]
                    if draw(st.booleans()):
                        a['opts']['reverse_columns'] = [nm.column(tscope) for _ in range(w)]
                elif r == 1 and w == 1:
                    a['opts']['column'] = nm.column(tscope)
                    a['opts']['reverse_column'] = nm.column(tscope)
                elif r == 2:
                    a['opts']['reverse_columns'] = [nm.column(tscope) for _ in range(w)]
                if qualify and dialect == 'sqlite':
                    a['opts']['table'] = [schema_name, nm.table()]
                elif draw(st.integers(0, 2)) == 0:
                    a['opts']['table'] = link_table_name()
                if draw(st.integers(0, 7)) == 0:
                    a['opts']['index'] = nm.constraint()
                if draw(st.integers(0, 7)) == 0:
                    a['opts']['reverse_index'] = nm.constraint()
                if draw(st.integers(0, 7)) == 0:
                    a['opts']['fk_name'] = nm.constraint()
                if draw(st.integers(0, 7)) == 0:
                    a['opts']['reverse_fk_name'] = nm.constraint()
                add_attr(e1, a)
                continue
            a = {'name': nm.attr(s1), 'cls': 'Set', 'type': 'E:' + n2, 'opts': {}}
            b = {'name': nm.attr(s2), 'cls': 'Set', 'type': 'E:' + n1, 'opts': {}}
            tscope = 'm2m:%d' % len(pair_count) + a['name']
            # a.column(s) name the link-table columns that point to a's OTHER end (e2) -- pony: attr.columns of a Set in a
            # many-to-many are the columns referencing the entity the Set contains
            r = draw(st.integers(0, 5))
            if r == 0:
                a['opts']['columns'] = [nm.column(tscope) for _ in range(width_of(n2))]
            if draw(st.integers(0, 5)) == 0:
                b['opts']['columns'] = [nm.column(tscope) for _ in range(width_of(n1))]
            if qualify and (dialect == 'sqlite' or draw(st.booleans())):
                t = [schema_name, nm.table()]
                a['opts']['table'] = t
                if draw(st.booleans()):
                    b['opts']['table'] = t
            elif draw(st.integers(0, 2)) == 0:
                t = link_table_name()
                which = draw(st.integers(0, 2))
                if which in (0, 2):
                    a['opts']['table'] = t
                if which in (1, 2):
                    b['opts']['table'] = t
            if draw(st.integers(0, 7)) == 0:
                a['opts']['index'] = nm.constraint()
            if draw(st.integers(0, 7)) == 0:
                b['opts']['fk_name'] = nm.constraint()
            if explicit_reverse or n1 == n2:
                a['opts']['reverse'] = b['name']
                b['opts']['reverse'] = a['name']
            add_attr(e1, a)
            add_attr(e2, b)

    # ---- composite keys and composite indexes ------------------------------------------------------------------------
    for e in ents:
        usable = []
        for anc in _self_and_ancestors(by_name, e['name']):
            for a in by_name[anc]['attrs']:
                if a['cls'] in ('Set', 'Discriminator') or a['type'] == 'float':
                    continue
                if a['type'] in ('Json', 'IntArray', 'StrArray', 'LongStr', 'bytes', 'bool'):
                    continue
                if a['type'].startswith('E:'):
                    # only references that certainly hold columns: Required ends, or many-to-one ends
                    rev = _find_reverse(by_name, anc, a)
                    if not (a['cls'] in ('Required', 'PrimaryKey') or (rev is not None and rev['cls'] == 'Set')):
                        continue
                if a['opts'].get('nullable') is False:
                    continue
                usable.append(a['name'])
        seen = [tuple(e['pk'])] if e['pk'] else []
        for base in _self_and_ancestors(by_name, e['name']):
            seen.extend(tuple(k) for k in by_name[base]['keys'] + by_name[base]['indexes'])
            if by_name[base]['pk']:
                seen.append(tuple(by_name[base]['pk']))
        if len(usable) >= 2:
            for which in ('keys', 'indexes'):
                if draw(st.integers(0, 3)) == 0:
                    k = draw(st.integers(2, min(3, len(usable))))
                    cols = tuple(draw(st.permutations(usable))[:k])
                    if cols not in seen:
                        seen.append(cols)
                        e[which].append(list(cols))
    return {'dialect': dialect, 'spec': {'entities': ents}}


def _self_and_ancestors(by_name, name):
    out = []
    stack = [name]
    while stack:
        n = stack.pop(0)
        if n in out:
            continue
        out.append(n)
        stack.extend(by_name[n]['bases'])
    return out


def _related(by_name, x, y):
    return x in _self_and_ancestors(by_name, y) or y in _self_and_ancestors(by_name, x)


def _hier_related(by_name, root_of, x, y):
    return root_of[x] == root_of[y]


def _find_reverse(by_name, ename, a):
    """the attribute dict at the other end of relation attribute `a` of entity `ename` (explicit or implicit reverse)"""
    target = a['type'][2:]
    rname = a['opts'].get('reverse')
    t = by_name.get(target)
    if t is None:
        return None
    if rname is not None:
        for x in t['attrs']:
            if x['name'] == rname:
                return x
        return None
    cands = [x for x in t['attrs'] if x['type'] == 'E:' + ename and x is not a
             and x['opts'].get('reverse') in (None, a['name'])]
    exact = [x for x in cands if x['opts'].get('reverse') == a['name']]
    if len(exact) == 1:
        return exact[0]
    if len(cands) == 1:
        return cands[0]
    return None
