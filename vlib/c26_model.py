"""C26 oracle pieces: materialise a spec into Pony classes, a reference expectation computed from the spec alone,
catalog readers (SQLite PRAGMAs / a small DDL tokenizer+parser for the other dialects), and the comparison.

Nothing here reads Pony's schema objects.  Pony is consulted only to LOCATE DEFAULT names: Entity._table_, Attribute.columns,
Set.table, Set.reverse_columns (all public, documented mapping options echoed back).  A name the declarations spell out
(_table_, column(s)=, table=, reverse_column(s)=, index='..' / fk_name= of a to-one attribute) is taken from the SPEC: it has to
be used exactly as declared, and the catalog is looked up under the declared name.  What the columns must look like
(how many, nullability, pk, unique, index, fk structure) is derived from the spec by the reference rules below.
"""
import os, re, sys, json, sqlite3, datetime, decimal, uuid

STUBS = os.path.join(os.path.dirname(os.path.abspath(__file__)), 'stubs')

NAME_LIMIT = {'postgres': 63, 'mysql': 64, 'oracle': 30}          # my transcription of the dialect limits (= what pony claims)
QUOTE = {'sqlite': '"', 'postgres': '"', 'mysql': '`', 'oracle': '"'}


# =====================================================================================================================
# materialisation
# =====================================================================================================================

def _types():
    from pony import orm
    return {'int': int, 'str': str, 'float': float, 'bool': bool, 'Decimal': decimal.Decimal, 'date': datetime.date,
            'datetime': datetime.datetime, 'time': datetime.time, 'timedelta': datetime.timedelta, 'UUID': uuid.UUID,
            'bytes': bytes, 'Json': orm.Json, 'LongStr': orm.LongStr, 'IntArray': orm.IntArray, 'StrArray': orm.StrArray}


def build_attr(a):
    from pony import orm
    cls = {'PrimaryKey': orm.PrimaryKey, 'Required': orm.Required, 'Optional': orm.Optional, 'Set': orm.Set,
           'Discriminator': orm.Discriminator}[a['cls']]
    t = a['type']
    py_type = t[2:] if t.startswith('E:') else _types()[t]
    kw = {}
    for k, v in a['opts'].items():
        if k == 'table' and isinstance(v, list):
            v = tuple(v)
        kw[k] = v
    return cls(py_type, **kw)


def materialise(spec, db):
    """define the classes of `spec` on `db` with type(name, bases, attrs); composite pk / keys / indexes are declared by
    running the real PrimaryKey(...)/composite_key(...)/composite_index(...) calls against the class namespace"""
    from pony import orm
    entity_dir = set(dir(db.Entity))
    classes = {}
    for e in spec['entities']:
        ns = {}
        for a in e['attrs']:
            if a['name'] in entity_dir and a['name'] != 'id':
                raise AssertionError('generator bug: attribute name %r shadows Entity.%s' % (a['name'], a['name']))
            ns[a['name']] = build_attr(a)
        g = {'PrimaryKey': orm.PrimaryKey, 'composite_key': orm.composite_key, 'composite_index': orm.composite_index}
        if e['pk']:
            g['_args'] = [ns[n] for n in e['pk']]
            exec('PrimaryKey(*_args)', g, ns)
        for k in e['keys']:
            g['_args'] = [_lookup_attr(classes, spec, e, ns, n) for n in k]
            exec('composite_key(*_args)', g, ns)
        for k in e['indexes']:
            g['_args'] = [_lookup_attr(classes, spec, e, ns, n) for n in k]
            exec('composite_index(*_args)', g, ns)
        if e['table'] is not None:
            ns['_table_'] = tuple(e['table']) if isinstance(e['table'], list) else e['table']
        if e['disc_value'] is not None:
            ns['_discriminator_'] = e['disc_value']
        bases = tuple(classes[b] for b in e['bases']) or (db.Entity,)
        classes[e['name']] = type(e['name'], bases, ns)
    return classes


def _lookup_attr(classes, spec, e, ns, name):
    if name in ns:
        return ns[name]
    for b in Reference.ancestors_of(spec, e['name'])[1:]:
        cls = classes[b]
        if name in cls.__dict__:
            return cls.__dict__[name]
    raise AssertionError('generator bug: key attribute %r not found for %s' % (name, e['name']))


# =====================================================================================================================
# reference expectation (from the spec alone)
# =====================================================================================================================

class Reference(object):
    def __init__(self, spec, dialect):
        self.spec = spec
        self.dialect = dialect
        self.ents = {e['name']: e for e in spec['entities']}
        self.order = [e['name'] for e in spec['entities']]

    @staticmethod
    def ancestors_of(spec, name):
        by = {e['name']: e for e in spec['entities']}
        out, stack = [], [name]
        while stack:
            n = stack.pop(0)
            if n in out:
                continue
            out.append(n)
            stack.extend(by[n]['bases'])
        return out

    def root(self, name):
        e = self.ents[name]
        while e['bases']:
            e = self.ents[e['bases'][0]]
        return e['name']

    def is_root(self, name):
        return not self.ents[name]['bases']

    def members(self, root):
        return [n for n in self.order if self.root(n) == root]

    def roots(self):
        return [n for n in self.order if self.is_root(n)]

    def attr(self, ename, aname):
        for a in self.ents[ename]['attrs']:
            if a['name'] == aname:
                return a
        return None

    def pk_attrs(self, root):
        """[(attr name, attr dict or None for the implicit id)]"""
        e = self.ents[root]
        if e['pk']:
            return [(n, self.attr(root, n)) for n in e['pk']]
        for a in e['attrs']:
            if a['cls'] == 'PrimaryKey':
                return [(a['name'], a)]
        return [('id', None)]

    def pk_width(self, name):
        w = 0
        for n, a in self.pk_attrs(self.root(name)):
            if a is None or not a['type'].startswith('E:'):
                w += 1
            else:
                w += self.pk_width(a['type'][2:])
        return w

    def has_implicit_discriminator(self, root):
        if any(a['cls'] == 'Discriminator' for a in self.ents[root]['attrs']):
            return False
        if len(self.members(root)) > 1:
            return True
        return self.ents[root]['disc_value'] is not None

    def reverse_of(self, ename, a):
        """(entity name, attr dict) of the other end"""
        target = a['type'][2:]
        t = self.ents[target]
        rname = a['opts'].get('reverse')
        if rname is not None:
            return target, self.attr(target, rname)
        cands = [x for x in t['attrs'] if x['type'] == 'E:' + ename and x is not a
                 and x['opts'].get('reverse') in (None, a['name'])]
        exact = [x for x in cands if x['opts'].get('reverse') == a['name']]
        if len(exact) == 1:
            return target, exact[0]
        if len(cands) == 1:
            return target, cands[0]
        raise AssertionError('generator bug: reverse of %s.%s is ambiguous / missing' % (ename, a['name']))

    def holds_columns(self, ename, a):
        """True / False / None (= either end may hold them: Optional-Optional one-to-one without explicit columns)"""
        if not a['type'].startswith('E:'):
            return True
        if a['cls'] == 'Set':
            return False
        rn, r = self.reverse_of(ename, a)
        if r['cls'] == 'Set':
            return True
        if a['cls'] in ('Required', 'PrimaryKey'):
            return True
        if 'column' in a['opts'] or 'columns' in a['opts']:
            return True
        if r is a:
            return True                      # symmetric one-to-one
        if r['cls'] in ('Required', 'PrimaryKey'):
            return False                     # the Required end holds them
        return None

    def width(self, ename, a):
        if a is None or not a['type'].startswith('E:'):
            return 1
        return self.pk_width(a['type'][2:])

    def notnull(self, ename, a, in_pk):
        """declared nullability of the columns of a non-collection attribute: True (NOT NULL) / False (NULL) / None (not asserted)"""
        if a is None:
            return True                      # implicit id (pk)
        if in_pk:
            return True
        if not self.is_root(ename):
            return False                     # single-table inheritance: documented to be nullable
        o = a['opts']
        if a['cls'] in ('Required', 'PrimaryKey', 'Discriminator'):
            return True
        if o.get('nullable') is True:
            return False
        if o.get('nullable') is False:
            return True
        stringlike = a['type'] in ('str', 'LongStr')
        if not stringlike and a['type'] not in ('Json', 'IntArray', 'StrArray'):
            return False                     # Optional non-string: NULL
        if a['type'] in ('Json', 'IntArray', 'StrArray'):
            return None                      # undocumented default ('{}' / '[]' NOT NULL): not asserted
        if self.dialect == 'oracle':
            return False                     # documented: '' is NULL in Oracle, optional strings must be nullable
        if o.get('unique') or self._in_any_index(ename, a['name']):
            return None                      # unique / keyed optional strings silently become nullable: not asserted
        return True                          # documented: Optional(str) is stored as '' NOT NULL

    def _in_any_index(self, ename, aname):
        root = self.root(ename)
        for m in self.members(root):
            e = self.ents[m]
            for k in e['keys'] + e['indexes']:
                if aname in k and ename in self.ancestors_of(self.spec, m):
                    return True
        return False


# =====================================================================================================================
# catalog from SQLite
# =====================================================================================================================

def q(name, ch='"'):
    return ch + name.replace(ch, ch + ch) + ch


def sqlite_catalog(path):
    con = sqlite3.connect(path)
    try:
        cat = {'tables': {}, 'sequences': [], 'triggers': []}
        names = [r[0] for r in con.execute("select name from sqlite_master where type='table' and name not like 'sqlite_%'")]
        for t in names:
            tab = {'name': t, 'columns': [], 'pk': [], 'uniques': [], 'indexes': [], 'fks': []}
            pkpos = {}
            for cid, name, typ, notnull, dflt, pk in con.execute('PRAGMA table_info(%s)' % q(t)):
                tab['columns'].append({'name': name, 'notnull': bool(notnull), 'pk': pk, 'type': typ})
                if pk:
                    pkpos[pk] = name
            tab['pk'] = [pkpos[k] for k in sorted(pkpos)]
            for seq, iname, unique, origin, partial in con.execute('PRAGMA index_list(%s)' % q(t)).fetchall():
                cols = [r[2] for r in con.execute('PRAGMA index_info(%s)' % q(iname)).fetchall()]
                if origin == 'pk':
                    continue
                rec = {'name': None if iname.startswith('sqlite_autoindex_') else iname, 'cols': cols}
                (tab['uniques'] if unique else tab['indexes']).append(rec)
            fks = {}
            for fid, seq, ptable, frm, to, on_update, on_delete, match in con.execute('PRAGMA foreign_key_list(%s)' % q(t)):
                fk = fks.setdefault(fid, {'name': None, 'cols': [], 'ref_table': ptable, 'ref_cols': [], 'on_delete': on_delete})
                fk['cols'].append(frm)
                fk['ref_cols'].append(to)
            tab['fks'] = [fks[k] for k in sorted(fks)]
            cat['tables'][t] = tab
        return cat
    finally:
        con.close()


# =====================================================================================================================
# DDL tokenizer / parser
# =====================================================================================================================

class DDLError(Exception):
    """the script is not in the shape this parser knows: malformed DDL (or an unknown construct)"""


def tokenize(script, quote_char):
    """tokens: ('id', name) quoted identifier, ('w', WORD) bare word upper-cased, ('n', text), ('s', text) string, ('p', ch)"""
    toks = []
    i, n = 0, len(script)
    while i < n:
        c = script[i]
        if c.isspace():
            i += 1
        elif c == quote_char:
            j = i + 1
            buf = []
            while True:
                if j >= n:
                    raise DDLError('unterminated quoted identifier starting at offset %d' % i)
                if script[j] == quote_char:
                    if j + 1 < n and script[j + 1] == quote_char:
                        buf.append(quote_char)
                        j += 2
                        continue
                    break
                buf.append(script[j])
                j += 1
            toks.append(('id', ''.join(buf)))
            i = j + 1
        elif c == "'":
            j = i + 1
            while True:
                if j >= n:
                    raise DDLError('unterminated string literal at offset %d' % i)
                if script[j] == "'":
                    if j + 1 < n and script[j + 1] == "'":
                        j += 2
                        continue
                    break
                j += 1
            toks.append(('s', script[i:j + 1]))
            i = j + 1
        elif c.isalpha() or c == '_':
            j = i
            while j < n and (script[j].isalnum() or script[j] in '_$#'):
                j += 1
            toks.append(('w', script[i:j].upper()))
            i = j
        elif c.isdigit():
            j = i
            while j < n and (script[j].isalnum() or script[j] == '.'):
                j += 1
            toks.append(('n', script[i:j]))
            i = j
        else:
            toks.append(('p', c))
            i += 1
    return toks


def split_statements(toks):
    """split at top-level ';' ; a CREATE TRIGGER statement runs to 'END ;' and swallows the inner ';'s"""
    stmts, cur = [], []
    i = 0
    while i < len(toks):
        t = toks[i]
        if t == ('p', ';'):
            is_trigger = len(cur) >= 2 and cur[0] == ('w', 'CREATE') and cur[1] == ('w', 'TRIGGER')
            if is_trigger and not (cur and cur[-1] == ('w', 'END')):
                cur.append(t)
            else:
                if is_trigger:
                    cur.append(t)
                if cur:
                    stmts.append(cur)
                cur = []
        else:
            cur.append(t)
        i += 1
    if cur:
        stmts.append(cur)
    return stmts


class _P(object):
    def __init__(self, toks):
        self.t = toks
        self.i = 0

    def peek(self, k=0):
        return self.t[self.i + k] if self.i + k < len(self.t) else (None, None)

    def eof(self):
        return self.i >= len(self.t)

    def word(self, *words):
        """consume the given bare words if they come next"""
        for k, w in enumerate(words):
            if self.peek(k) != ('w', w):
                return False
        self.i += len(words)
        return True

    def need_word(self, *words):
        if not self.word(*words):
            raise DDLError('expected %s, found %r' % (' '.join(words), self.t[self.i:self.i + 4]))

    def punct(self, ch):
        if self.peek() == ('p', ch):
            self.i += 1
            return True
        return False

    def need_punct(self, ch):
        if not self.punct(ch):
            raise DDLError('expected %r, found %r' % (ch, self.t[self.i:self.i + 4]))

    def ident(self):
        k, v = self.peek()
        if k != 'id':
            raise DDLError('expected a quoted identifier, found %r' % (self.t[self.i:self.i + 4],))
        self.i += 1
        return v

    def qualified(self):
        parts = [self.ident()]
        while self.peek() == ('p', '.') and self.peek(1)[0] == 'id':
            self.i += 1
            parts.append(self.ident())
        return parts[0] if len(parts) == 1 else tuple(parts)

    def column_list(self):
        self.need_punct('(')
        cols = [self.ident()]
        while self.punct(','):
            cols.append(self.ident())
        self.need_punct(')')
        return cols

    def on_delete(self):
        if self.word('ON', 'DELETE'):
            if self.word('CASCADE'):
                return 'CASCADE'
            if self.word('SET', 'NULL'):
                return 'SET NULL'
            if self.word('RESTRICT'):
                return 'RESTRICT'
            if self.word('NO', 'ACTION'):
                return 'NO ACTION'
            raise DDLError('unknown ON DELETE action %r' % (self.t[self.i:self.i + 3],))
        return 'NO ACTION'


def _split_top_commas(toks):
    items, cur, depth = [], [], 0
    for t in toks:
        if t == ('p', '('):
            depth += 1
        elif t == ('p', ')'):
            depth -= 1
            if depth < 0:
                raise DDLError('unbalanced parentheses')
        if t == ('p', ',') and depth == 0:
            items.append(cur)
            cur = []
        else:
            cur.append(t)
    if depth != 0:
        raise DDLError('unbalanced parentheses')
    items.append(cur)
    return items


def parse_ddl(script, quote_char):
    """-> catalog {'tables': {name: {...}}, 'sequences': [names], 'triggers': [(name, table)], 'events': [...]}
    events is the statement order: ('table', name, [inline parent tables]) / ('index', name, table) /
    ('fk', name, child, parent) / ('sequence', name) / ('trigger', name, table)"""
    toks = tokenize(script, quote_char)
    cat = {'tables': {}, 'sequences': [], 'triggers': [], 'events': []}
    for st in split_statements(toks):
        p = _P(st)
        if p.word('CREATE', 'TABLE'):
            p.word('IF', 'NOT', 'EXISTS')
            name = p.qualified()
            if name in cat['tables']:
                raise DDLError('table %r is created twice' % (name,))
            p.need_punct('(')
            depth, j = 1, p.i
            while j < len(st) and depth:
                if st[j] == ('p', '('):
                    depth += 1
                elif st[j] == ('p', ')'):
                    depth -= 1
                j += 1
            if depth:
                raise DDLError('CREATE TABLE %r: unbalanced parentheses' % (name,))
            body = st[p.i:j - 1]
            rest = st[j:]
            tab = {'name': name, 'columns': [], 'pk': [], 'pk_name': None, 'uniques': [], 'indexes': [], 'fks': [],
                   'options': rest}
            inline_parents = []
            for item in _split_top_commas(body):
                if not item:
                    raise DDLError('CREATE TABLE %r: empty item (dangling comma)' % (name,))
                ip = _P(item)
                if item[0][0] == 'id':
                    cname = ip.ident()
                    col = {'name': cname, 'notnull': False, 'pk': 0, 'unique': False, 'auto': False, 'type': []}
                    while not ip.eof():
                        if ip.word('NOT', 'NULL'):
                            col['notnull'] = True
                        elif ip.word('PRIMARY', 'KEY'):
                            col['pk'] = 1
                            if ip.word('AUTOINCREMENT') or ip.word('AUTO_INCREMENT'):
                                col['auto'] = True
                        elif ip.word('UNIQUE'):
                            col['unique'] = True
                        elif ip.word('DEFAULT'):
                            ip.i += 1
                        elif ip.word('REFERENCES'):
                            ptable = ip.qualified()
                            pcols = ip.column_list()
                            od = ip.on_delete()
                            tab['fks'].append({'name': None, 'cols': [cname], 'ref_table': ptable, 'ref_cols': pcols,
                                               'on_delete': od})
                            inline_parents.append(ptable)
                        else:
                            col['type'].append(ip.peek())
                            ip.i += 1
                    if any(c['name'] == cname for c in tab['columns']):
                        raise DDLError('CREATE TABLE %r: column %r defined twice' % (name, cname))
                    if col['type'] and col['type'][0] in (('w', 'SERIAL'), ('w', 'BIGSERIAL')):
                        col['auto'] = True
                    tab['columns'].append(col)
                else:
                    cname = None
                    if ip.word('CONSTRAINT'):
                        cname = ip.ident()
                    if ip.word('PRIMARY', 'KEY'):
                        if tab['pk']:
                            raise DDLError('CREATE TABLE %r: two primary keys' % (name,))
                        tab['pk'] = ip.column_list()
                        tab['pk_name'] = cname
                    elif ip.word('UNIQUE'):
                        tab['uniques'].append({'name': cname, 'cols': ip.column_list()})
                    elif ip.word('INDEX'):
                        tab['indexes'].append({'name': cname, 'cols': ip.column_list()})
                    elif ip.word('FOREIGN', 'KEY'):
                        cols = ip.column_list()
                        ip.need_word('REFERENCES')
                        ptable = ip.qualified()
                        pcols = ip.column_list()
                        od = ip.on_delete()
                        tab['fks'].append({'name': cname, 'cols': cols, 'ref_table': ptable, 'ref_cols': pcols, 'on_delete': od})
                        inline_parents.append(ptable)
                    else:
                        raise DDLError('CREATE TABLE %r: unknown table item %r' % (name, item[:5]))
                    if not ip.eof():
                        raise DDLError('CREATE TABLE %r: trailing tokens %r' % (name, item[ip.i:ip.i + 5]))
            inline_pk = [c['name'] for c in tab['columns'] if c['pk']]
            if inline_pk:
                if tab['pk'] or len(inline_pk) > 1:
                    raise DDLError('CREATE TABLE %r: several primary keys' % (name,))
                tab['pk'] = inline_pk
            for pos, cn in enumerate(tab['pk']):
                for c in tab['columns']:
                    if c['name'] == cn:
                        c['pk'] = pos + 1
            for c in tab['columns']:
                if c['unique']:
                    tab['uniques'].append({'name': None, 'cols': [c['name']]})
            cat['tables'][name] = tab
            cat['events'].append(('table', name, inline_parents))
        elif p.word('CREATE', 'UNIQUE', 'INDEX') or p.word('CREATE', 'INDEX'):
            unique = st[1] == ('w', 'UNIQUE')
            p.word('IF', 'NOT', 'EXISTS')
            iname = p.qualified()
            p.need_word('ON')
            tname = p.qualified()
            if p.word('USING'):
                p.i += 1
            cols = p.column_list()
            if not p.eof():
                raise DDLError('CREATE INDEX %r: trailing tokens' % (iname,))
            cat['events'].append(('index', iname, tname))
            if tname in cat['tables']:
                (cat['tables'][tname]['uniques'] if unique else cat['tables'][tname]['indexes']).append(
                    {'name': iname, 'cols': cols, 'standalone': True})
        elif p.word('ALTER', 'TABLE'):
            tname = p.qualified()
            p.need_word('ADD')
            cname = None
            if p.word('CONSTRAINT'):
                cname = p.ident()
            p.need_word('FOREIGN', 'KEY')
            cols = p.column_list()
            p.need_word('REFERENCES')
            ptable = p.qualified()
            pcols = p.column_list()
            od = p.on_delete()
            if not p.eof():
                raise DDLError('ALTER TABLE %r: trailing tokens %r' % (tname, st[p.i:p.i + 5]))
            cat['events'].append(('fk', cname, tname, ptable))
            if tname in cat['tables']:
                cat['tables'][tname]['fks'].append({'name': cname, 'cols': cols, 'ref_table': ptable, 'ref_cols': pcols,
                                                    'on_delete': od, 'standalone': True})
        elif p.word('CREATE', 'SEQUENCE'):
            sname = p.qualified()
            cat['sequences'].append(sname)
            cat['events'].append(('sequence', sname))
        elif p.word('CREATE', 'TRIGGER'):
            trname = p.qualified()
            tname = None
            for k in range(p.i, len(st) - 1):
                if st[k] == ('w', 'ON') and st[k + 1][0] == 'id':
                    p.i = k + 1
                    tname = p.qualified()
                    break
            cat['triggers'].append((trname, tname))
            cat['events'].append(('trigger', trname, tname))
        else:
            raise DDLError('unknown statement %r' % (st[:6],))
    return cat


# =====================================================================================================================
# well-formedness of a parsed DDL script (PostgreSQL / MySQL / Oracle rules)
# =====================================================================================================================

def base(name):
    return name[-1] if isinstance(name, tuple) else name


def schema_of(name, default):
    return name[0] if isinstance(name, tuple) else default


def ddl_wellformed(cat, dialect):
    """-> list of (tag, message).  Namespaces (conservative: only collisions every server of that dialect refuses):
       postgres: tables+indexes+sequences+pk/unique constraint indexes share the schema's relation namespace (case-sensitive,
                 everything is quoted); constraint names are per table; columns per table.
       mysql:    columns per table, index names per table, fk constraint names per schema: case-INsensitive; table names as written.
       oracle:   tables+indexes+sequences share the schema object namespace, constraints another, triggers another (quoted:
                 case-sensitive); columns per table."""
    out = []
    limit = NAME_LIMIT.get(dialect)        # None for SQLite (no limit)
    fold = (lambda s: s.lower()) if dialect in ('mysql', 'sqlite') else (lambda s: s)
    default_schema = {'postgres': 'public', 'mysql': 'testdb', 'oracle': 'SCOTT', 'sqlite': 'main'}[dialect]

    def too_long(kind, name, where=''):
        for part in (name if isinstance(name, tuple) else (name,)):
            if limit is not None and len(part) > limit:
                out.append(('name-too-long:' + kind, '%s name %r%s has %d characters, %s allows %d'
                            % (kind, part, where, len(part), dialect, limit)))
            if part == '':
                out.append(('empty-name:' + kind, 'empty %s name%s' % (kind, where)))

    def dup(space, key, what, tag, raw=None):
        if key in space:
            other_what, other_raw = space[key]
            case_only = raw is not None and other_raw is not None and raw != other_raw
            out.append(('duplicate-name:' + tag + (':case-only' if case_only else ''),
                        '%s collides with %s (%s) in the %s DDL'
                        % (what, other_what, 'names differ only in letter case, which %s ignores' % dialect if case_only
                           else 'same name', dialect)))
        else:
            space[key] = (what, raw)

    relations, constraints, triggers = {}, {}, {}
    for tname, tab in cat['tables'].items():
        too_long('table', tname)
        sch = schema_of(tname, default_schema)
        tkey = base(tname).lower() if dialect == 'sqlite' else base(tname)     # as written, except SQLite (case-insensitive)
        dup(relations, (sch, tkey), 'table %r' % (tname,), 'table', base(tname))
        cols = {}
        for c in tab['columns']:
            too_long('column', c['name'], ' of table %r' % (tname,))
            dup(cols, fold(c['name']), 'column %r of table %r' % (c['name'], tname), 'column', c['name'])
        per_table_constraints = {}
        per_table_indexes = {}
        named = []
        if tab.get('pk_name'):
            named.append(('primary key', tab['pk_name'], True))
        for u in tab['uniques']:
            if u['name']:
                named.append(('unique constraint' if not u.get('standalone') else 'unique index', u['name'], True))
        for ix in tab['indexes']:
            if ix['name']:
                named.append(('index', ix['name'], True))
        for kind, nm_, is_index in named:
            too_long(kind, nm_, ' on table %r' % (tname,))
            what = '%s %r on table %r' % (kind, nm_, tname)
            if dialect == 'postgres':
                dup(relations, (sch, base(nm_)), what, 'index', base(nm_))
            elif dialect == 'sqlite':
                if kind in ('index', 'unique index'):       # tables and indexes share one case-insensitive namespace
                    dup(relations, (sch, base(nm_).lower()), what, 'index', base(nm_))
            elif dialect == 'oracle':
                if kind == 'index' or kind == 'unique index':
                    dup(relations, (sch, base(nm_)), what, 'index', base(nm_))
                else:
                    dup(constraints, (sch, nm_), what, 'constraint', nm_)
            else:
                dup(per_table_indexes, fold(base(nm_)), what, 'index', base(nm_))
        for fk in tab['fks']:
            if fk['name']:
                too_long('foreign key', fk['name'], ' on table %r' % (tname,))
                what = 'foreign key %r on table %r' % (fk['name'], tname)
                if dialect == 'postgres':
                    dup(per_table_constraints, fk['name'], what, 'fk', fk['name'])
                else:
                    dup(constraints, (sch, fold(fk['name'])), what, 'fk', fk['name'])
        if dialect == 'postgres':
            for kind, nm_, _ in named:
                if kind in ('primary key', 'unique constraint'):
                    dup(per_table_constraints, nm_, '%s %r on table %r' % (kind, nm_, tname), 'constraint', nm_)
    for s in cat['sequences']:
        too_long('sequence', s)
        dup(relations, (schema_of(s, default_schema), base(s)), 'sequence %r' % (s,), 'sequence', base(s))
    for trname, tname in cat['triggers']:
        too_long('trigger', trname)
        dup(triggers, (schema_of(trname, default_schema), base(trname)), 'trigger %r' % (trname,), 'trigger', base(trname))

    # structure: every object refers to existing tables / columns; fk targets are keys of equal length
    def find_table(name):
        if name in cat['tables']:
            return cat['tables'][name]
        for tn, tab in cat['tables'].items():       # "public"."t" and "t" are the same table
            if base(tn) == base(name) and schema_of(tn, default_schema) == schema_of(name, default_schema):
                return tab
        return None

    for tname, tab in cat['tables'].items():
        colnames = [c['name'] for c in tab['columns']]
        if not tab['columns']:
            out.append(('malformed:no-columns', 'table %r has no columns' % (tname,)))
        if not tab['pk']:
            out.append(('malformed:no-pk', 'table %r has no primary key' % (tname,)))
        for what, lists in (('primary key', [tab['pk']]), ('unique constraint', [u['cols'] for u in tab['uniques']]),
                            ('index', [i['cols'] for i in tab['indexes']]), ('foreign key', [f['cols'] for f in tab['fks']])):
            for cols in lists:
                for c in cols:
                    if c not in colnames:
                        out.append(('malformed:unknown-column', '%s of table %r uses column %r which the table does not define'
                                    % (what, tname, c)))
                if len(set(cols)) != len(cols):
                    out.append(('malformed:repeated-column', '%s of table %r repeats a column: %r' % (what, tname, cols)))
        seen_fk = set()
        for fk in tab['fks']:
            parent = find_table(fk['ref_table'])
            if parent is None:
                out.append(('malformed:fk-unknown-table', 'foreign key %r of table %r references table %r which the script never creates'
                            % (fk['name'], tname, fk['ref_table'])))
                continue
            if len(fk['cols']) != len(fk['ref_cols']):
                out.append(('malformed:fk-arity', 'foreign key %r of table %r has %d columns but references %d'
                            % (fk['name'], tname, len(fk['cols']), len(fk['ref_cols']))))
            pcols = [c['name'] for c in parent['columns']]
            missing = [c for c in fk['ref_cols'] if c not in pcols]
            if missing:
                out.append(('malformed:fk-unknown-column', 'foreign key %r of table %r references columns %r missing from table %r'
                            % (fk['name'], tname, missing, fk['ref_table'])))
                continue
            keys = [tuple(parent['pk'])] + [tuple(u['cols']) for u in parent['uniques']]
            if tuple(fk['ref_cols']) not in keys and sorted(fk['ref_cols']) not in [sorted(k) for k in keys]:
                out.append(('malformed:fk-not-a-key', 'foreign key %r of table %r references %r%r which is neither the primary key '
                            'nor a unique key of that table' % (fk['name'], tname, fk['ref_table'], tuple(fk['ref_cols']))))
            k = tuple(fk['cols'])
            if k in seen_fk:
                out.append(('malformed:fk-twice', 'table %r declares two foreign keys on columns %r' % (tname, k)))
            seen_fk.add(k)

    # order: a table exists before an index / fk / trigger mentions it; inline REFERENCES only to itself or earlier tables
    # (SQLite resolves foreign-key parents lazily, so inline forward references are legal there)
    created = []

    def is_created(name):
        return any(base(x) == base(name) and schema_of(x, default_schema) == schema_of(name, default_schema) for x in created)

    for ev in cat['events']:
        if ev[0] == 'table':
            created.append(ev[1])
            for parent in ev[2]:
                if dialect != 'sqlite' and not is_created(parent):
                    out.append(('order:inline-fk', 'table %r references table %r inline before that table is created' % (ev[1], parent)))
        elif ev[0] == 'index':
            if not is_created(ev[2]):
                out.append(('order:index', 'index %r is created before its table %r' % (ev[1], ev[2])))
        elif ev[0] == 'fk':
            for tn in (ev[2], ev[3]):
                if not is_created(tn):
                    out.append(('order:fk', 'foreign key %r is added before table %r is created' % (ev[1], tn)))
        elif ev[0] == 'trigger':
            if ev[2] is None or not is_created(ev[2]):
                out.append(('order:trigger', 'trigger %r is created before its table %r' % (ev[1], ev[2])))
    return out


# =====================================================================================================================
# comparison of a catalog with the reference expectation
# =====================================================================================================================

def _tkey(name, dialect):
    """table identity for comparisons: SQLite PRAGMAs report bare names of schema main"""
    if isinstance(name, (tuple, list)):
        name = tuple(name)
        if dialect == 'sqlite':
            return name[-1]
        return name
    return name


def compare(ref, classes, cat, dialect):
    """-> list of (tag, message).  `classes` are the Pony entity classes (used to locate names only)."""
    out = []
    spec = ref.spec

    def pattr(ename, aname):
        return getattr(classes[ename], aname)

    def declared_cols(a):
        if a is None:
            return None
        o = a['opts']
        if 'columns' in o:
            return list(o['columns'])
        if 'column' in o:
            return [o['column']]
        return None

    def cols_of(ename, aname):
        """column names of a non-collection attribute: as DECLARED when the spec names them (pony's echo must agree), else as
        pony reports its defaults"""
        reported = list(pattr(ename, aname).columns or [])
        a = ref.attr(ename, aname)
        decl = declared_cols(a) if (a is not None and a['cls'] != 'Set') else None
        if decl is not None:
            if reported != decl and (ename, aname) not in renamed:
                renamed.add((ename, aname))
                out.append(('explicit-name:column', '%s.%s declares column(s) %r but pony maps it to %r' % (ename, aname, decl, reported)))
            return decl
        return reported

    def table_of(ename):
        root = ref.root(ename)
        reported = _tkey(classes[root]._table_, dialect)
        decl = ref.ents[root]['table']
        if decl is not None:
            decl = _tkey(decl, dialect)
            if reported != decl and root not in renamed:
                renamed.add(root)
                out.append(('explicit-name:table', 'entity %s declares _table_ = %r but pony maps it to table %r' % (root, decl, reported)))
            return decl
        return reported

    renamed = set()

    def pk_cols(ename):
        root = ref.root(ename)
        cols = []
        for n, a in ref.pk_attrs(root):
            cols.extend(cols_of(root, n))
        return cols

    tables = {_tkey(k, dialect): v for k, v in cat['tables'].items()}
    expected_tables = {}
    named_indexes, named_fks = [], []     # (table, cols, declared name, label)
    required_fks = set()                  # (table, cols) of foreign keys that belong to Required / PrimaryKey references
    exp_fks = []          # (child table, cols, parent table, parent cols, declared cascade True/False/None, label, index opt)

    for root in ref.roots():
        tname = table_of(root)
        label = 'table %r of entity %s' % (tname, root)
        if tname in expected_tables:
            out.append(('tables:shared', '%s is also used by %s' % (label, expected_tables[tname])))
            continue
        expected_tables[tname] = 'entity ' + root
        tab = tables.get(tname)
        if tab is None:
            out.append(('tables:missing', '%s was not created (tables present: %r)' % (label, sorted(map(str, tables)))))
            continue
        actual = {c['name']: c for c in tab['columns']}
        exp_cols = {}        # column name -> (entity, attr, notnull, in_pk)
        pknames = [n for n, a in ref.pk_attrs(root)]
        attr_list = []
        for m in ref.members(root):
            e = ref.ents[m]
            implicit = []
            if m == root:
                if pknames == ['id'] and ref.attr(root, 'id') is None:
                    implicit.append(('id', None))
                if ref.has_implicit_discriminator(root):
                    implicit.append(('classtype', {'name': 'classtype', 'cls': 'Discriminator', 'type': 'str', 'opts': {}}))
            for n, a in implicit + [(a['name'], a) for a in e['attrs']]:
                attr_list.append((m, n, a))
        unique_sets, index_sets = [], []
        for m, n, a in attr_list:
            if a is not None and a['cls'] == 'Set':
                continue
            holds = True if a is None else ref.holds_columns(m, a)
            located = cols_of(m, n)
            width = ref.width(m, a)
            what = '%s.%s' % (m, n)
            if holds is False:
                if located:
                    out.append(('columns:unexpected', '%s is the virtual end of a one-to-one relationship but is mapped to columns %r'
                                % (what, located)))
                continue
            if holds is None:
                rn, r = ref.reverse_of(m, a)
                other = cols_of(rn, r['name'])
                if not located and not other:
                    out.append(('columns:missing', 'neither %s nor %s.%s holds a column for their one-to-one relationship'
                                % (what, rn, r['name'])))
                if not located:
                    continue
            if len(located) != width:
                out.append(('columns:count', '%s should be mapped to %d column(s) (primary key width of its target), pony reports %r'
                            % (what, width, located)))
                continue
            in_pk = m == root and n in pknames
            nn = ref.notnull(m, a, in_pk)
            for cn in located:
                if cn in exp_cols:
                    out.append(('columns:shared', 'column %r of %s is used by both %s and %s'
                                % (cn, label, exp_cols[cn][0], what)))
                exp_cols[cn] = (what, nn, in_pk)
            if a is not None and isinstance(a['opts'].get('index'), str):
                named_indexes.append((tname, tuple(located), a['opts']['index'], what))
            if a is not None and a['type'].startswith('E:') and isinstance(a['opts'].get('fk_name'), str):
                named_fks.append((tname, tuple(located), a['opts']['fk_name'], what))
            if a is not None and a['type'].startswith('E:'):
                rn, r = ref.reverse_of(m, a)
                casc = r['opts'].get('cascade_delete') if r is not a else None
                exp_fks.append((tname, tuple(located), table_of(a['type'][2:]), tuple(pk_cols(a['type'][2:])), casc, what,
                                a['opts'].get('index')))
                if a['cls'] in ('Required', 'PrimaryKey'):
                    # wherever it is declared (root, subclass => nullable column, explicit nullable=True): the database must
                    # never be told to blank out a reference the model requires
                    required_fks.add((tname, tuple(located)))
            elif a is not None and a['opts'].get('index') and not a['opts'].get('unique'):
                index_sets.append((tuple(located), what + ' index=%r' % (a['opts']['index'],)))
            if a is not None and a['opts'].get('unique'):
                unique_sets.append((tuple(located), what + ' unique=True'))
        # keys and indexes declared with composite_key / composite_index (in the entity or its subclasses)
        for m in ref.members(root):
            e = ref.ents[m]
            for which, target in (('keys', unique_sets), ('indexes', index_sets)):
                for k in e[which]:
                    cols = []
                    for n in k:
                        owner = [x for x in ref.ancestors_of(spec, m) if ref.attr(x, n) is not None]
                        cols.extend(cols_of(owner[0], n))
                    target.append((tuple(cols), '%s composite_%s(%s)' % (m, 'key' if which == 'keys' else 'index', ', '.join(k))))

        # -- one column per mapped attribute column
        if set(actual) != set(exp_cols) or len(tab['columns']) != len(exp_cols):
            out.append(('columns:set', '%s has columns %r but the mapped attribute columns are %r'
                        % (label, [c['name'] for c in tab['columns']], sorted(exp_cols))))
        for cn, (what, nn, in_pk) in sorted(exp_cols.items()):
            c = actual.get(cn)
            if c is None or nn is None:
                continue
            is_nn = c['notnull'] or bool(c['pk'])
            if is_nn != nn:
                out.append(('nullability', 'column %r of %s (%s) is %s but the declaration makes it %s'
                            % (cn, label, what, 'NOT NULL' if is_nn else 'nullable', 'NOT NULL' if nn else 'nullable')))
        # -- primary key
        exp_pk = pk_cols(root)
        if list(tab['pk']) != exp_pk:
            out.append(('primary-key', '%s has primary key %r, declared %r' % (label, list(tab['pk']), exp_pk)))
        # -- unique constraints
        act_u = sorted(tuple(u['cols']) for u in tab['uniques'])
        exp_u = sorted(set(c for c, w in unique_sets))
        if act_u != exp_u:
            out.append(('unique', '%s has unique constraints %r, declared %r (%s)'
                        % (label, act_u, exp_u, '; '.join(w for c, w in unique_sets))))
        expected_tables[tname] = ('entity ' + root, index_sets, tab)

    # -- many-to-many link tables
    done = set()
    for ename in ref.order:
        for a in ref.ents[ename]['attrs']:
            if a['cls'] != 'Set':
                continue
            rn, r = ref.reverse_of(ename, a)
            if r['cls'] != 'Set' or id(r) in done:
                continue
            done.add(id(a))
            A, B = pattr(ename, a['name']), pattr(rn, r['name'])
            tname = _tkey(A.table, dialect)
            what = '%s.%s <-> %s.%s' % (ename, a['name'], rn, r['name'])
            if tname is None or _tkey(B.table, dialect) != tname:
                out.append(('m2m:table', '%s: the two ends name different tables %r / %r' % (what, A.table, B.table)))
                continue
            decl_tables = [_tkey(x['opts']['table'], dialect) for x in (a, r) if x['opts'].get('table') is not None]
            if decl_tables:
                if len(set(decl_tables)) > 1:
                    out.append(('explicit-name:m2m-table', '%s: the two ends declare different tables %r but the mapping was accepted'
                                % (what, decl_tables)))
                if tname != decl_tables[0]:
                    out.append(('explicit-name:m2m-table', '%s declares table=%r but pony created the link table as %r'
                                % (what, decl_tables[0], tname)))
                tname = decl_tables[0]
            label = 'link table %r of %s' % (tname, what)
            if tname in expected_tables:
                out.append(('tables:shared', '%s is also used by %s' % (label, expected_tables[tname])))
                continue
            expected_tables[tname] = (what, [], None)
            tab = tables.get(tname)
            if tab is None:
                out.append(('tables:missing', '%s was not created (tables present: %r)' % (label, sorted(map(str, tables)))))
                continue
            if r is a:      # symmetric
                cols_to_owner = list(A.columns or [])
                cols_to_other = list(A.reverse_columns or [])
                declared = [(declared_cols(a), cols_to_owner, 'column(s)')]
                rc = a['opts'].get('reverse_columns') or ([a['opts']['reverse_column']] if 'reverse_column' in a['opts'] else None)
                declared.append((list(rc) if rc else None, cols_to_other, 'reverse_column(s)'))
            else:
                cols_to_other = list(A.columns or [])       # reference the entity contained in the Set `a` (= rn)
                cols_to_owner = list(B.columns or [])       # reference the owner of `a` (= ename)
                declared = [(declared_cols(a), cols_to_other, '%s.%s column(s)' % (ename, a['name'])),
                            (declared_cols(r), cols_to_owner, '%s.%s column(s)' % (rn, r['name']))]
            for decl, reported, which in declared:
                if decl is not None and decl != reported:
                    out.append(('explicit-name:column', '%s: %s declared as %r but pony maps them to %r' % (label, which, decl, reported)))
                    reported[:] = decl
            w_owner, w_other = ref.pk_width(ename), ref.pk_width(rn)
            if len(cols_to_owner) != w_owner or len(cols_to_other) != w_other:
                out.append(('columns:count', '%s should have %d + %d columns, pony reports %r + %r'
                            % (label, w_owner, w_other, cols_to_owner, cols_to_other)))
                continue
            allcols = cols_to_owner + cols_to_other
            if sorted(c['name'] for c in tab['columns']) != sorted(allcols):
                out.append(('columns:set', '%s has columns %r but the mapped columns are %r'
                            % (label, [c['name'] for c in tab['columns']], allcols)))
            for c in tab['columns']:
                if not (c['notnull'] or c['pk']):
                    out.append(('nullability', 'column %r of %s is nullable' % (c['name'], label)))
            if sorted(tab['pk']) != sorted(allcols):
                out.append(('primary-key', '%s has primary key %r, expected all of %r' % (label, tab['pk'], allcols)))
            if tab['uniques']:
                out.append(('unique', '%s has unexpected unique constraints %r' % (label, tab['uniques'])))
            exp_fks.append((tname, tuple(cols_to_owner), table_of(ename), tuple(pk_cols(ename)), None, label, None))
            exp_fks.append((tname, tuple(cols_to_other), table_of(rn), tuple(pk_cols(rn)), None, label, None))
            expected_tables[tname] = (what, [], tab)

    # -- no other tables
    extra = sorted(str(t) for t in tables if t not in expected_tables)
    if extra:
        out.append(('tables:extra', 'the schema contains tables %r that no entity or relationship is mapped to' % (extra,)))

    # -- foreign keys
    act_fks = {}
    for tname, tab in tables.items():
        for fk in tab['fks']:
            act_fks[(tname, tuple(fk['cols']), _tkey(fk['ref_table'], dialect), tuple(fk['ref_cols']))] = fk
    exp_keys = {}
    for (ct, cc, pt, pc, casc, what, index_opt) in exp_fks:
        exp_keys[(ct, cc, pt, pc)] = (casc, what, index_opt)
    for k in sorted(set(exp_keys) - set(act_fks), key=repr):
        out.append(('fk:missing', 'no foreign key %r%r -> %r%r for %s (foreign keys present: %r)'
                    % (k[0], k[1], k[2], k[3], exp_keys[k][1], sorted(act_fks, key=repr))))
    for k in sorted(set(act_fks) - set(exp_keys), key=repr):
        out.append(('fk:extra', 'foreign key %r%r -> %r%r corresponds to no declared relationship' % k))
    for k, (casc, what, index_opt) in sorted(exp_keys.items(), key=repr):
        fk = act_fks.get(k)
        if fk is None:
            continue
        if casc is True and fk['on_delete'] != 'CASCADE':
            out.append(('fk:on-delete', 'cascade_delete=True is declared for the reverse of %s but its foreign key says ON DELETE %s'
                        % (what, fk['on_delete'])))
        if casc is False and fk['on_delete'] == 'CASCADE':
            out.append(('fk:on-delete', 'cascade_delete=False is declared for the reverse of %s but its foreign key says ON DELETE CASCADE'
                        % (what,)))
        if (k[0], k[1]) in required_fks and fk['on_delete'] == 'SET NULL':
            out.append(('fk:on-delete', '%s is a Required reference but its foreign key says ON DELETE SET NULL: deleting the '
                        'referenced row would silently blank a required attribute instead of being refused or cascading' % (what,)))

    # -- explicit index= / fk_name= names of basic and to-one attributes are used as declared
    for (tname, cols, nm_, what) in named_indexes:
        tab = tables.get(tname)
        if tab is None:
            continue
        exact = [i for i in tab['indexes'] + tab['uniques'] if tuple(i['cols']) == cols]
        if exact and not any(i['name'] == nm_ for i in exact):
            out.append(('explicit-name:index', '%s declares index=%r but the index on %r of table %r is named %r'
                        % (what, nm_, cols, tname, [i['name'] for i in exact])))
    if dialect != 'sqlite':                      # SQLite foreign keys are anonymous
        for (tname, cols, nm_, what) in named_fks:
            tab = tables.get(tname)
            if tab is None:
                continue
            exact = [f for f in tab['fks'] if tuple(f['cols']) == cols]
            if exact and not any(f['name'] == nm_ for f in exact):
                out.append(('explicit-name:fk', '%s declares fk_name=%r but the foreign key on %r of table %r is named %r'
                            % (what, nm_, cols, tname, [f['name'] for f in exact])))

    # -- indexes: declared ones exist; every other index is the automatic index of a foreign key (index != False)
    for tname, rec in expected_tables.items():
        if not isinstance(rec, tuple) or rec[2] is None:
            continue
        what, index_sets, tab = rec
        act_i = [tuple(i['cols']) for i in tab['indexes']]
        all_idx = act_i + [tuple(u['cols']) for u in tab['uniques']] + [tuple(tab['pk'])]
        for cols, w in index_sets:
            if cols not in act_i:
                out.append(('index:missing', 'table %r has no index on %r declared by %s (indexes present: %r)'
                            % (tname, cols, w, act_i)))
        declared = set(c for c, w in index_sets)
        fk_here = {k[1]: v for k, v in exp_keys.items() if k[0] == tname}
        for cols in act_i:
            if cols in declared:
                continue
            if cols in fk_here and fk_here[cols][2] is not False:
                continue
            out.append(('index:extra', 'table %r has an index on %r which is neither declared nor the index of a foreign key%s'
                        % (tname, cols, ' (index=False was declared)' if cols in fk_here else '')))
        if len(set(act_i)) != len(act_i):
            out.append(('index:duplicate', 'table %r has two indexes on the same columns: %r' % (tname, act_i)))
        for cols, (casc, w, index_opt) in fk_here.items():
            if index_opt is False:
                continue
            if not any(ix[:len(cols)] == cols for ix in all_idx):
                out.append(('index:fk', 'foreign key columns %r of table %r (%s) are not covered by any index' % (cols, tname, w)))
    return out


# =====================================================================================================================
# inserting through Pony (SQLite live)
# =====================================================================================================================

class _Values(object):
    def __init__(self):
        self.n = 0

    def next(self, a):
        self.n += 1
        n = self.n
        t = a['type']
        o = a['opts']
        if t == 'int':
            return n
        if t in ('str', 'LongStr'):
            return 's%d' % n
        if t == 'float':
            return n + 0.5
        if t == 'bool':
            return bool(n % 2)
        if t == 'Decimal':
            return decimal.Decimal(n)
        if t == 'date':
            return datetime.date(2020, 1, 1) + datetime.timedelta(days=n)
        if t == 'datetime':
            return datetime.datetime(2020, 1, 1, 12, 0, 0) + datetime.timedelta(days=n)
        if t == 'time':
            return datetime.time(n // 60 % 24, n % 60, 0)
        if t == 'timedelta':
            return datetime.timedelta(minutes=n)
        if t == 'UUID':
            return uuid.UUID(int=n)
        if t == 'bytes':
            return b'b%d' % n
        if t == 'Json':
            return {'k': n}
        if t == 'IntArray':
            return [n, n + 1]
        if t == 'StrArray':
            return ['s%d' % n]
        raise AssertionError(t)


def insert_rows(ref, classes, db):
    """create one object of every entity class (plus the objects its Required references need), commit.
    -> (number of objects per root table name, skipped entity names)"""
    from pony.orm import db_session
    vals = _Values()
    counts = {}
    skipped = []

    def all_attrs(ename):
        out = []
        for anc in reversed(ref.ancestors_of(ref.spec, ename)):
            for a in ref.ents[anc]['attrs']:
                if not any(x[1] is a for x in out):
                    out.append((anc, a))
        return out

    def creatable(ename, trail):
        if ename in trail:
            return False
        for owner, a in all_attrs(ename):
            if a['cls'] in ('Required', 'PrimaryKey') and a['type'].startswith('E:'):
                if not creatable(a['type'][2:], trail + [ename]):
                    return False
        return True

    def make(ename):
        kw = {}
        for owner, a in all_attrs(ename):
            if a['cls'] in ('Set', 'Discriminator'):
                continue
            if a['type'].startswith('E:'):
                if a['cls'] in ('Required', 'PrimaryKey'):
                    kw[a['name']] = make(a['type'][2:])
                continue
            if a['cls'] == 'PrimaryKey' and a['opts'].get('auto'):
                continue
            if a['cls'] == 'Optional' and a['type'] not in ('str', 'LongStr') and vals.n % 3 == 0:
                vals.n += 1
                continue
            kw[a['name']] = vals.next(a)
        obj = classes[ename](**kw)
        t = str(_tkey(classes[ename]._table_, 'sqlite'))
        counts[t] = counts.get(t, 0) + 1
        return obj

    with db_session:
        for ename in ref.order:
            if creatable(ename, []):
                make(ename)
            else:
                skipped.append(ename)
        db.commit()
    return counts, skipped


# =====================================================================================================================
# mock pool for the server dialects
# =====================================================================================================================

class _Cursor(object):
    description = []
    rowcount = 0
    arraysize = 1

    def __init__(self, dialect):
        self.dialect = dialect
        self.row = None

    def execute(self, sql, args=None):
        s = sql.lower()
        self.row = None
        if 'select version()' in s:
            self.row = ('8.0.30',)
        elif 'select database()' in s:
            self.row = ('testdb',)
        elif 'product_component_version' in s:
            self.row = ('11.2.0.2.0',)
        elif 'current_schema' in s:
            self.row = ('SCOTT',)

    def fetchone(self):
        return self.row

    def fetchall(self):
        return []

    def fetchmany(self, size=1):
        return []

    def close(self):
        pass


class _Connection(object):
    autocommit = True
    server_version = 120004        # PostgreSQL 12.4

    def __init__(self, dialect):
        self.dialect = dialect

    def cursor(self):
        return _Cursor(self.dialect)

    def commit(self):
        pass

    def rollback(self):
        pass

    def close(self):
        pass


class MockPool(object):
    def __init__(self, dialect):
        self.dialect = dialect

    def connect(self):
        return _Connection(self.dialect), True

    def release(self, con):
        pass

    def drop(self, con):
        pass

    def disconnect(self):
        pass


def provider_class(dialect):
    if STUBS not in sys.path:
        sys.path.append(STUBS)          # real drivers, if they ever get installed, win
    import importlib
    mod = importlib.import_module('pony.orm.dbproviders.' + dialect)
    return mod.provider_cls
