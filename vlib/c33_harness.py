"""C33 harness: hooked entity model, ONE ordered log of hook calls and executed SQL statements,
a small reference model of the expected table contents, the history executor and the oracle.

A case (plain JSON):
    {'hooks':   {'P': {'before_insert': [body, arg], ...}, 'K': {...}, 'K2': {...}, 'T': {...}},
     'budget':  n,                      # hook side effects allowed per top-level operation (stops hook ping-pong)
     'sessions': [{'ops': [op, ...], 'end': 'commit' | 'rollback'}, ...]}
    op = {'k': kind, 'i': int, 'j': int, 'attr': 'a'|'b'|'h'|'c', 'v': int, 'w': int|None, 'f': bool}

Entities (all six hooks defined on every class; every hook writes an event to the log before running its body):
    P   explicit pk, a, b, h, kids=Set(K) [K.parent Required -> cascade delete], alts=Set(K) [K.alt Optional], tags=Set(T) m2m,
        up=Optional(P) / downs=Set(P) (self-reference; the harness only lets up point to an older P, so chains
        K -> P -> P -> P ..., trees and diamonds of unsaved principals exist and are acyclic)
    K   auto pk, tag (unique handle chosen by the harness, never changed), a, b, h, parent, alt;  K2(K) adds c
    T   explicit pk, a, h, owners=Set(P)
    every class also has m=Optional(Json) (a dict, default {}) and arr=Optional(IntArray) (default []): values that Pony hands
    out as tracked objects, so that program and hooks can change them IN PLACE (m['n'] = v, m['trail'].append(v),
    arr.append(v)) as well as by assignment

The oracle never looks into Pony: it reads the log (statement text + parameters + lastrowid, hook events,
operation begin/end markers) and the tables through plain sqlite3 cursors.
"""
import os, re, sqlite3, copy, json

HOOKS = ('before_insert', 'before_update', 'before_delete', 'after_insert', 'after_update', 'after_delete')
CLASSES = ('P', 'K', 'K2', 'T')
BODIES = ('nothing', 'read', 'readcoll', 'mod_self', 'mod_other', 'create', 'mod_json')
ENTITY_TABLES = {'p': 'P', 'k': 'K', 't': 'T'}
KIND_OF_HOOK = {'before_insert': ('B', 'insert'), 'before_update': ('B', 'update'), 'before_delete': ('B', 'delete'),
                'after_insert': ('A', 'insert'), 'after_update': ('A', 'update'), 'after_delete': ('A', 'delete')}

_CUR = None      # the Runner whose case is being executed (one at a time per process)


# ------------------------------------------------------------------------------------------------
# statement log: sqlite3 subclasses handed to pony through db.bind(..., factory=LogConn)
# ------------------------------------------------------------------------------------------------
class LogCursor(sqlite3.Cursor):
    def execute(self, sql, *args):
        params = args[0] if args else ()
        try:
            r = sqlite3.Cursor.execute(self, sql, *args)
        except BaseException as e:
            if _CUR is not None: _CUR.rec_sql(sql, params, None, None, error='%s: %s' % (type(e).__name__, e))
            raise
        if _CUR is not None: _CUR.rec_sql(sql, params, self.lastrowid, self.rowcount)
        return r

    def executemany(self, sql, seq):
        seq = [tuple(x) for x in seq]
        try:
            r = sqlite3.Cursor.executemany(self, sql, seq)
        except BaseException as e:
            if _CUR is not None:
                for p in seq: _CUR.rec_sql(sql, p, None, None, error='%s: %s' % (type(e).__name__, e))
            raise
        if _CUR is not None:
            for p in seq: _CUR.rec_sql(sql, p, None, None)
        return r


class LogConn(sqlite3.Connection):
    def __init__(self, *a, **kw):
        sqlite3.Connection.__init__(self, *a, **kw)
        c = sqlite3.Cursor(self)                 # harness-only settings, not logged
        c.execute('PRAGMA synchronous=OFF')
        c.execute('PRAGMA journal_mode=MEMORY')
        c.close()
        if _CUR is not None: _CUR.rawconns.append(self)

    def cursor(self, factory=LogCursor):
        return sqlite3.Connection.cursor(self, factory)

    def commit(self):
        if _CUR is not None: _CUR.log({'t': 'txn', 'what': 'COMMIT'})
        return sqlite3.Connection.commit(self)

    def rollback(self):
        if _CUR is not None: _CUR.log({'t': 'txn', 'what': 'ROLLBACK'})
        return sqlite3.Connection.rollback(self)


_INSERT_RE = re.compile(r'^\s*INSERT INTO "(\w+)" \(([^)]*)\) VALUES', re.I)
_UPDATE_RE = re.compile(r'^\s*UPDATE "(\w+)"\s+SET (.*?)\s+WHERE "id" = \?', re.I | re.S)
_DELETE_RE = re.compile(r'^\s*DELETE FROM "(\w+)"\s+WHERE "id" = \?', re.I | re.S)
_WRITE_RE = re.compile(r'^\s*(INSERT|UPDATE|DELETE|REPLACE)\b', re.I)
_TABLE_RE = re.compile(r'^\s*(?:INSERT\s+(?:OR\s+\w+\s+)?INTO|REPLACE\s+INTO|UPDATE|DELETE\s+FROM)\s+"?(\w+)"?', re.I)


def parse_write(sql, params, lastrowid):
    """-> None (not a data-changing statement on an entity table)
       -> ('?', table, None, None) (changes an entity table but cannot be attributed to one row)
       -> (kind, table, key, extra): kind insert/update/delete; key = pk for update/delete and for p/t inserts;
          for inserts into k: key = lastrowid and extra = tag parameter."""
    if not _WRITE_RE.match(sql): return None
    m = _TABLE_RE.match(sql)
    if not m: return ('?', None, None, None)
    table = m.group(1)
    if table not in ENTITY_TABLES: return None
    params = list(params)
    m = _INSERT_RE.match(sql)
    if m:
        cols = re.findall(r'"(\w+)"', m.group(2))
        if len(cols) != len(params): return ('?', table, None, None)
        if table == 'k':
            if 'tag' not in cols: return ('?', table, None, None)
            pk = params[cols.index('id')] if 'id' in cols else lastrowid
            return ('insert', table, pk, params[cols.index('tag')])
        if 'id' not in cols: return ('?', table, None, None)
        return ('insert', table, params[cols.index('id')], None)
    m = _UPDATE_RE.match(sql)
    if m:
        n = m.group(2).count('?')
        if n >= len(params): return ('?', table, None, None)
        return ('update', table, params[n], None)
    m = _DELETE_RE.match(sql)
    if m:
        if not params: return ('?', table, None, None)
        return ('delete', table, params[0], None)
    return ('?', table, None, None)


# ------------------------------------------------------------------------------------------------
# reference model of the table contents (what the program + the hook bodies wrote, in execution order)
# ------------------------------------------------------------------------------------------------
class Model(object):
    def __init__(self):
        self.P = {}      # pk  -> {'a','b','h','up'}
        self.T = {}      # pk  -> {'a','h'}
        self.K = {}      # tag -> {'cls','a','b','h','c','parent','alt'}
        self.links = set()   # (p pk, t pk)

    def copy(self):
        return copy.deepcopy(self)

    def live(self, cls=None):
        out = []
        if cls in (None, 'P'): out += [('P', pk) for pk in sorted(self.P)]
        if cls in (None, 'K'): out += [('K', tag) for tag in sorted(self.K)]
        if cls in (None, 'T'): out += [('T', pk) for pk in sorted(self.T)]
        return out

    def row(self, handle):
        return getattr(self, handle[0])[handle[1]]

    def is_live(self, handle):
        return handle[1] in getattr(self, handle[0])

    def delete(self, handle):
        """-> list of handles removed (cascade: K.parent is Required, so kids go with their parent;
        K.alt is Optional: set to NULL; m2m links are removed)"""
        cls, key = handle
        gone = [handle]
        if cls == 'P':
            for tag in sorted(self.K):
                if self.K[tag]['parent'] == key: gone.append(('K', tag))
            for h in gone[1:]: del self.K[h[1]]
            for row in self.K.values():
                if row['alt'] == key: row['alt'] = None
            for row in self.P.values():
                if row['up'] == key: row['up'] = None
            self.links = set(l for l in self.links if l[0] != key)
            del self.P[key]
        elif cls == 'K':
            del self.K[key]
        else:
            self.links = set(l for l in self.links if l[1] != key)
            del self.T[key]
        return gone

    def tables(self):
        return {
            'p': sorted([pk, r['a'], r['b'], r['h'], r['up']] + _jcols(r) for pk, r in self.P.items()),
            't': sorted([pk, r['a'], r['h']] + _jcols(r) for pk, r in self.T.items()),
            'k': sorted([tag, r['cls'], r['a'], r['b'], r['h'], r['c'], r['parent'], r['alt']] + _jcols(r)
                        for tag, r in self.K.items()),
            'p_t': sorted([a, b] for a, b in self.links),
        }


def _canon(value):
    return None if value is None else json.dumps(value, sort_keys=True)


def _jcols(row):
    """the Json and the array column of a model row in canonical text form (Pony's defaults: {} and [])"""
    return [_canon(row.get('m', {})), _canon(row.get('arr', []))]


def _jrow(r):
    """last two columns of a table row are JSON text (sqlite stores Json and arrays as text): canonical form"""
    r = list(r)
    for n in (-2, -1):
        if r[n] is not None: r[n] = _canon(json.loads(r[n]))
    return r


def read_tables(cursor):
    out = {}
    out['p'] = sorted(_jrow(r) for r in cursor.execute('SELECT "id", "a", "b", "h", "up", "m", "arr" FROM "p"').fetchall())
    out['t'] = sorted(_jrow(r) for r in cursor.execute('SELECT "id", "a", "h", "m", "arr" FROM "t"').fetchall())
    out['k'] = sorted(_jrow(r) for r in cursor.execute(
        'SELECT "tag", "classtype", "a", "b", "h", "c", "parent", "alt", "m", "arr" FROM "k"').fetchall())
    out['p_t'] = sorted(list(r) for r in cursor.execute('SELECT "p_id", "t_id" FROM "p_t"').fetchall())
    return out


def diff_tables(expected, got):
    out = []
    for t in ('p', 'k', 't', 'p_t'):
        if expected[t] != got[t]:
            missing = [r for r in expected[t] if r not in got[t]]
            extra = [r for r in got[t] if r not in expected[t]]
            out.append('%s: expected rows missing %r, unexpected rows %r' % (t, missing, extra))
    return '; '.join(out)


def diff_between(required, full, got):
    """'' when the tables lie between `required` (must be there) and `full` (may be there): every row of `got` is a row of
    `full` (columns of rows that are also required may still hold the required value), every required row is present."""
    if got == full: return ''
    if required == full: return diff_tables(full, got)
    out = []
    for t in ('p', 'k', 't'):
        req = dict((r[0], r) for r in required[t])
        ful = dict((r[0], r) for r in full[t])
        have = dict((r[0], r) for r in got[t])
        for key in sorted(have):
            row = have[key]
            if key not in ful: out.append('%s: unexpected row %r' % (t, row))
            elif key in req:
                if any(c != a and c != b for c, a, b in zip(row, req[key], ful[key])):
                    out.append('%s: row %r, expected %r (or %r before the after-hooks of this operation)' % (t, row, ful[key], req[key]))
            elif row != ful[key]: out.append('%s: row %r, expected %r' % (t, row, ful[key]))
        for key in sorted(req):
            if key not in have: out.append('%s: expected row missing %r' % (t, req[key]))
    for r in got['p_t']:
        if r not in full['p_t']: out.append('p_t: unexpected row %r' % (r,))
    for r in required['p_t']:
        if r not in got['p_t']: out.append('p_t: expected row missing %r' % (r,))
    return '; '.join(out)


# ------------------------------------------------------------------------------------------------
# entity definitions (fresh Database per case)
# ------------------------------------------------------------------------------------------------
def _mk_hook(name):
    def hook(self):
        _CUR.on_hook(self, name)
    hook.__name__ = name
    return hook


def define_entities(db):
    from pony.orm import PrimaryKey, Required, Optional, Set, Json, IntArray
    hooks = dict((name, _mk_hook(name)) for name in HOOKS)

    P = type('P', (db.Entity,), dict(hooks,
        _table_='p', id=PrimaryKey(int), a=Required(int), b=Optional(int), h=Optional(int),
        m=Optional(Json), arr=Optional(IntArray),
        kids=Set('K', reverse='parent'), alts=Set('K', reverse='alt'),
        up=Optional('P', reverse='downs', column='up'), downs=Set('P', reverse='up'),
        tags=Set('T', table='p_t', column='t_id')))
    K = type('K', (db.Entity,), dict(hooks,
        _table_='k', id=PrimaryKey(int, auto=True), tag=Required(int, unique=True),
        a=Required(int), b=Optional(int), h=Optional(int), m=Optional(Json), arr=Optional(IntArray),
        parent=Required('P', column='parent'), alt=Optional('P', column='alt')))
    # the subclass overrides every hook with its own function objects
    K2 = type('K2', (K,), dict(dict((name, _mk_hook(name)) for name in HOOKS), c=Optional(int)))
    T = type('T', (db.Entity,), dict(hooks,
        _table_='t', id=PrimaryKey(int), a=Required(int), h=Optional(int), m=Optional(Json), arr=Optional(IntArray),
        owners=Set('P', column='p_id')))
    return {'P': P, 'K': K, 'K2': K2, 'T': T}


class Abort(Exception):
    """raised by the harness inside db_session to leave it through the exception path (rollback)"""


class Trouble(Exception):
    """the harness cannot continue the history (object expected alive not found ...)"""


# ------------------------------------------------------------------------------------------------
# executor
# ------------------------------------------------------------------------------------------------
class Runner(object):
    def __init__(self, case, workdir):
        self.case = case
        self.workdir = workdir
        self.events = []
        self.rawconns = []
        self.kpk2tag = {}           # from the statement log: INSERT INTO k ... lastrowid -> tag parameter
        self.cur = Model()          # everything program and hooks have written so far
        self.committed = Model()    # its copy at the latest commit
        self.committed_req = Model()
        self.after_effects = []     # what after_* hooks did during the running operation (not asserted to be saved by it)
        self.registry = {}          # handle -> python object of the running session
        self.next_id = 1
        self.next_val = 1000
        self.budget = 0
        self.stats = set()          # class labels of what happened
        self.depth_hooks = 0
        self.inserted = set()       # handles that have had an INSERT statement (from the statement log)
        self.last_stmt = {}         # handle -> log position of its latest statement
        self.last_write = {}        # handle -> log position of the latest program/hook write to it
        self.path = None
        self.reader = None

    # ---- log ---------------------------------------------------------------------------------
    def log(self, ev):
        self.events.append(ev)
        return len(self.events) - 1

    def rec_sql(self, sql, params, lastrowid, rowcount, error=None):
        try: params = list(params)
        except TypeError: params = [repr(params)]
        ev = {'t': 'sql', 'sql': sql, 'params': params, 'lastrowid': lastrowid, 'rowcount': rowcount}
        if error: ev['error'] = error
        self.log(ev)
        if not error:
            w = parse_write(sql, params, lastrowid)
            if w and w[0] != '?':
                if w[0] == 'insert' and w[1] == 'k':
                    self.kpk2tag[w[2]] = w[3]
                handle = ('K', self.kpk2tag.get(w[2])) if w[1] == 'k' else (ENTITY_TABLES[w[1]], w[2])
                if w[0] == 'insert': self.inserted.add(handle)
                self.last_stmt[handle] = len(self.events) - 1

    def touch(self, handle):
        self.last_write[handle] = len(self.events)

    # ---- identities ----------------------------------------------------------------------------
    def new_id(self):
        n = self.next_id
        self.next_id += 1
        return n

    def new_val(self):
        n = self.next_val
        self.next_val += 1
        return n

    def handle_of(self, obj):
        cls = type(obj).__name__
        pk = obj.get_pk()
        if cls in ('P', 'T'): return (cls, pk), pk, None
        if pk is None:
            tag = obj.tag          # object not inserted yet: reading has no side effect on read bits
            return ('K', tag), None, tag
        return ('K', self.kpk2tag.get(pk)), pk, None

    def obj(self, handle):
        o = self.registry.get(handle)
        if o is not None: return o
        cls, key = handle
        E = self.E
        if cls == 'P': o = E['P'].get(id=key)
        elif cls == 'T': o = E['T'].get(id=key)
        else: o = E['K'].get(tag=key)
        if o is None:
            raise Trouble('object %s:%s is alive in the reference model but Pony cannot find it' % handle)
        self.registry[handle] = o
        return o

    def pick(self, cls, sel, exclude=None):
        live = [h for h in self.cur.live(cls) if h != exclude]
        if not live: return None
        return live[sel % len(live)]

    # ---- tracked values (Json dict / int array) ------------------------------------------------------
    def edit_tracked(self, obj, handle, kind, val):
        """kind 0: m['n'] = val; 1: m['trail'] gets val (key set the first time, nested list append afterwards);
        2: arr.append(val)  -- all three IN PLACE on the tracked value Pony returns;  3: m re-assigned as a whole.
        The reference model row is changed the same way."""
        # fetch the tracked value first: reading it may load the object, and that query may auto-flush and run hooks
        # which change the reference model; only then look at the model and apply the same edit on both sides
        tracked = obj.arr if kind == 2 else obj.m if kind in (0, 1) else None
        row = self.cur.row(handle)
        m, arr = row.setdefault('m', {}), row.setdefault('arr', [])
        if kind == 0:
            tracked['n'] = val
            m['n'] = val
        elif kind == 1:
            if 'trail' in m:
                tracked['trail'].append(val)
                m['trail'].append(val)
            else:
                tracked['trail'] = [val]
                m['trail'] = [val]
        elif kind == 2:
            tracked.append(val)
            arr.append(val)
        else:
            new = dict(copy.deepcopy(m), r=val)
            obj.m = copy.deepcopy(new)
            row['m'] = new
        if kind != 3:
            self.stats.add('inplace_edit')
            if self.last_write.get(handle, -1) > self.last_stmt.get(handle, -1) and handle in self.inserted:
                self.stats.add('inplace_edit_on_pending_update')
        self.touch(handle)

    # ---- hook dispatch ---------------------------------------------------------------------------
    def on_hook(self, obj, name):
        cls = type(obj).__name__
        handle, pk, tag = self.handle_of(obj)
        body, arg = self.case['hooks'].get(cls, {}).get(name, ['nothing', 0])
        ev = {'t': 'hook', 'hook': name, 'cls': cls, 'pk': pk, 'tag': tag, 'body': body, 'did': None}
        self.log(ev)
        self.depth_hooks += 1
        try:
            ev['did'] = self.hook_body(obj, handle, cls, name, body, arg, ev)
        finally:
            self.depth_hooks -= 1
        self.log({'t': 'hook_end', 'hook': name, 'cls': cls, 'pk': pk, 'tag': tag})

    def hook_body(self, obj, handle, cls, name, body, arg, ev):
        deleting = name in ('before_delete', 'after_delete')
        if body == 'nothing':
            return None
        if body == 'read':
            if name == 'after_delete':
                ev['snap'] = {'id': obj.id}       # only the key of a deleted object is readable
                return 'read'
            if name == 'before_delete':
                # Pony cannot load attributes of an object that is marked for deletion (Entity._load_ answers
                # "Phantom object ... disappeared" when the value is not in memory: object reached only through a
                # reference, or None value dropped after the INSERT).  That refusal concerns reads, not hook dispatch:
                # the hook notes it and goes on (counted as rejected read, rate reported).
                from pony.orm.core import UnrepeatableReadError
                snap = {'id': obj.id}
                try:
                    snap['a'] = obj.a
                    if cls != 'T': snap['b'] = obj.b
                except UnrepeatableReadError as e:
                    if not re.match(r'Phantom object \S+ disappeared$', str(e)): raise
                    self.stats.add('before_delete_read_refused')
                    ev['snap'] = snap
                    return 'read_refused'
                ev['snap'] = snap
                return 'read'
            snap = {'id': obj.id, 'a': obj.a, 'h': obj.h}
            if cls != 'T': snap['b'] = obj.b
            if cls in ('K', 'K2'):
                snap['tag'] = obj.tag
                par, alt = obj.parent, obj.alt
                snap['parent'] = None if par is None else par.get_pk()
                snap['alt'] = None if alt is None else alt.get_pk()
            if cls == 'K2': snap['c'] = obj.c
            if cls == 'P':
                up = obj.up
                snap['up'] = None if up is None else up.get_pk()
            ev['snap'] = snap
            return 'read'
        if body == 'readcoll':
            if deleting: return None        # collections of an object marked for deletion are not readable
            if cls == 'P':
                ev['snap'] = {'kids': len(obj.kids), 'tags': sorted(t.id for t in obj.tags), 'downs': len(obj.downs)}
            elif cls == 'T':
                ev['snap'] = {'owners': sorted(p.id for p in obj.owners)}
            else:
                ev['snap'] = {'siblings': len(obj.parent.kids)}
            return 'readcoll'
        if self.budget <= 0:
            return None
        if body == 'mod_self':
            if deleting or not self.cur.is_live(handle): return None
            self.budget -= 1
            val = self.new_val()
            self.log({'t': 'write', 'by': name, 'obj': list(handle), 'attr': 'h', 'value': val})
            obj.h = val
            if name.startswith('after_'): self.after_effects.append(('set', handle, 'h', self.cur.row(handle)['h']))
            self.cur.row(handle)['h'] = val
            self.touch(handle)
            return 'mod_self'
        if body == 'mod_other':
            target = self.pick(None, arg, exclude=handle)
            if target is None: return None
            self.budget -= 1
            val = self.new_val()
            tobj = self.obj(target)
            self.log({'t': 'write', 'by': name, 'obj': list(target), 'attr': 'h', 'value': val})
            tobj.h = val
            if name.startswith('after_'): self.after_effects.append(('set', target, 'h', self.cur.row(target)['h']))
            self.cur.row(target)['h'] = val
            self.touch(target)
            return 'mod_other'
        if body == 'mod_json':
            # arg % 4: kind of edit (see edit_tracked); (arg // 4) % 2: on self / on another live object
            if (arg // 4) % 2:
                target = self.pick(None, arg // 8, exclude=handle)
                if target is None: return None
                tobj = self.obj(target)
            else:
                if deleting or not self.cur.is_live(handle): return None
                target, tobj = handle, obj
            self.budget -= 1
            val, kind = self.new_val(), arg % 4
            self.log({'t': 'write', 'by': name, 'obj': list(target), 'attr': 'arr' if kind == 2 else 'm', 'kind': kind, 'value': val})
            if name.startswith('after_'):
                row = self.cur.row(target)
                self.after_effects.append(('set', target, 'm', copy.deepcopy(row.get('m', {}))))
                self.after_effects.append(('set', target, 'arr', list(row.get('arr', []))))
            if kind != 3 and name == 'before_update' and target == handle: self.stats.add('inplace_edit_in_before_update')
            self.edit_tracked(tobj, target, kind, val)
            return 'mod_json'
        if body == 'create':
            self.budget -= 1
            which = arg % 3
            E = self.E
            if which == 1:
                par = self.pick('P', arg // 3)
                if par is None: which = 0
                else:
                    tag, val = self.new_id(), self.new_val()
                    sub = bool((arg // 3) % 2)
                    self.log({'t': 'create', 'by': name, 'obj': ['K', tag], 'parent': par[1], 'sub': sub})
                    kw = dict(tag=tag, a=val, parent=self.obj(par))
                    o = E['K2'](c=val, **kw) if sub else E['K'](**kw)
                    self.registry[('K', tag)] = o
                    self.cur.K[tag] = {'cls': 'K2' if sub else 'K', 'a': val, 'b': None, 'h': None,
                                       'c': val if sub else None, 'parent': par[1], 'alt': None}
                    if name.startswith('after_'): self.after_effects.append(('create', ('K', tag)))
                    return 'create_k'
            if which == 2:
                pk, val = self.new_id(), self.new_val()
                self.log({'t': 'create', 'by': name, 'obj': ['P', pk]})
                up = self.pick('P', arg // 3) if (arg // 3) % 2 else None     # an older P: no cycle possible
                if up is not None: self.registry[('P', pk)] = E['P'](id=pk, a=val, up=self.obj(up))
                else: self.registry[('P', pk)] = E['P'](id=pk, a=val)
                self.cur.P[pk] = {'a': val, 'b': None, 'h': None, 'up': up and up[1]}
                if name.startswith('after_'): self.after_effects.append(('create', ('P', pk)))
                return 'create_p'
            pk, val = self.new_id(), self.new_val()
            owner = self.pick('P', arg // 3) if (arg // 3) % 2 else None
            self.log({'t': 'create', 'by': name, 'obj': ['T', pk], 'owner': owner and owner[1]})
            if owner is not None:
                self.registry[('T', pk)] = E['T'](id=pk, a=val, owners=[self.obj(owner)])
                self.cur.links.add((owner[1], pk))
            else:
                self.registry[('T', pk)] = E['T'](id=pk, a=val)
            self.cur.T[pk] = {'a': val, 'h': None}
            if name.startswith('after_'): self.after_effects.append(('create', ('T', pk)))
            return 'create_t'
        raise ValueError(body)

    # ---- database checks ---------------------------------------------------------------------------
    def required_model(self):
        """the reference model without what after_* hooks did during the running operation: the property promises
        the same-flush save only for changes made in before_* hooks, so those later effects may or may not be saved yet"""
        if not self.after_effects: return self.cur
        req = self.cur.copy()
        for eff in reversed(self.after_effects):
            if eff[0] == 'set':
                _, h, attr, old = eff
                if req.is_live(h): req.row(h)[attr] = old
            else:
                h = eff[1]
                if req.is_live(h): req.delete(h)
        return req

    def check_flushed(self, when):
        """through the connection Pony itself uses (plain cursor): sees the open transaction"""
        got = None
        if self.rawconns:
            try:
                c = sqlite3.Cursor(self.rawconns[-1])
                try: got = read_tables(c)
                finally: c.close()
            except sqlite3.ProgrammingError:
                got = None           # Pony has closed its connection: nothing can be pending in a transaction
        if got is None:
            c = self.reader.cursor()
            try: got = read_tables(c)
            finally: c.close()
        d = diff_between(self.required_model().tables(), self.cur.tables(), got)
        self.log({'t': 'dbcheck', 'view': 'flushed', 'when': when, 'diff': d})

    def unsaved_depth(self, handle):
        """length of the longest chain of not yet inserted objects reachable from `handle` through to-one references
        (K.parent, K.alt, P.up); measured on the reference model and the statement log (for the coverage classes)"""
        def refs(h):
            row = self.cur.row(h)
            keys = [row.get('parent'), row.get('alt')] if h[0] == 'K' else [row.get('up')] if h[0] == 'P' else []
            return [('P', k) for k in keys if k is not None and ('P', k) not in self.inserted and k in self.cur.P]
        def depth(h, seen):
            return max([0] + [1 + depth(r, seen + (r,)) for r in refs(h) if r not in seen])
        if not self.cur.is_live(handle): return 0
        return depth(handle, (handle,))

    def check_rows(self, begin, when):
        """after obj.flush(): every object that got a statement during the call (the flushed object and the unsaved
        objects it depends on, at any distance) must be stored with everything written to it before that statement,
        in particular what its own before-hook changed.  Objects written to again after their statement (by a later hook
        of the same call) are pending again and are not compared.  Plain cursor on Pony's connection."""
        handles = sorted(h for h, pos in self.last_stmt.items()
                         if pos >= begin and h[1] is not None and self.last_write.get(h, -1) < pos)
        if not handles or not self.rawconns: return
        try:
            c = sqlite3.Cursor(self.rawconns[-1])
            try: got = read_tables(c)
            finally: c.close()
        except sqlite3.ProgrammingError:
            return
        tname = {'P': 'p', 'K': 'k', 'T': 't'}
        wanted = set((tname[h[0]], h[1]) for h in handles)
        only = lambda tables: dict((name, [r for r in rows if (name, r[0]) in wanted]) for name, rows in tables.items())
        d = diff_tables(only(self.cur.tables()), only(got))
        self.log({'t': 'dbcheck', 'view': 'flushed', 'when': when, 'diff': d})

    def check_committed(self, when):
        """through a separate sqlite3 connection: sees committed data only"""
        c = self.reader.cursor()
        try: got = read_tables(c)
        finally: c.close()
        d = diff_between(self.committed_req.tables(), self.committed.tables(), got)
        self.log({'t': 'dbcheck', 'view': 'committed', 'when': when, 'diff': d})

    # ---- operations ------------------------------------------------------------------------------------
    def exec_op(self, si, oi, op):
        from pony import orm
        kind = op['k']
        i, j, attr, v, w, f = op.get('i', 0), op.get('j', 0), op.get('attr', 'a'), op.get('v', 0), op.get('w'), op.get('f', False)
        E, cur = self.E, self.cur
        self.budget = self.case.get('budget', 0)
        self.after_effects = []
        marker = {'t': 'op', 'ph': 'begin', 's': si, 'j': oi, 'kind': kind, 'target': None}
        self.log(marker)
        done = True
        if kind == 'new_p':
            up = self.pick('P', j) if f else None          # only an older P: reference chains stay acyclic
            pk = self.new_id()
            kw = dict(id=pk, a=v, b=w)
            if up is not None: kw['up'] = self.obj(up)
            if w is not None: kw.update(m={'n': w, 'trail': []}, arr=[w])      # otherwise Pony's defaults {} and []
            self.registry[('P', pk)] = E['P'](**kw)
            cur.P[pk] = {'a': v, 'b': w, 'h': None, 'up': up and up[1]}
            if w is not None: cur.P[pk].update(m={'n': w, 'trail': []}, arr=[w])
            if up is not None: self.stats.add('p_chain')
        elif kind == 'new_t':
            pk = self.new_id()
            self.registry[('T', pk)] = E['T'](id=pk, a=v)
            cur.T[pk] = {'a': v, 'h': None}
        elif kind == 'new_k':
            par = self.pick('P', i)
            if par is None: done = False
            else:
                alt = self.pick('P', j) if f else None
                tag = self.new_id()
                sub = attr == 'c'
                kw = dict(tag=tag, a=v, b=w, parent=self.obj(par))
                if alt is not None: kw['alt'] = self.obj(alt)
                if sub: kw['c'] = v
                if w is not None: kw.update(m={'n': w, 'trail': [w]}, arr=[w, v])
                self.registry[('K', tag)] = (E['K2'] if sub else E['K'])(**kw)
                cur.K[tag] = {'cls': 'K2' if sub else 'K', 'a': v, 'b': w, 'h': None, 'c': v if sub else None,
                              'parent': par[1], 'alt': alt and alt[1]}
                if w is not None: cur.K[tag].update(m={'n': w, 'trail': [w]}, arr=[w, v])
        elif kind in ('set', 'same', 'setkw'):
            h = self.pick(None, i)
            if h is None: done = False
            else:
                row = cur.row(h)
                if attr == 'c' and row.get('cls') != 'K2': attr = 'b'
                if attr == 'b' and h[0] == 'T': attr = 'h'
                o = self.obj(h)
                marker['target'] = list(h)
                self.touch(h)
                if kind == 'set':
                    val = v if (attr == 'a' or not f) else w      # optional attributes also receive None
                    setattr(o, attr, val)
                    row[attr] = val
                elif kind == 'same':
                    setattr(o, attr, row[attr])
                    self.stats.add('same_value')
                else:
                    kw = {'a': v}
                    if h[0] != 'T': kw['b'] = w
                    else: kw['h'] = w
                    o.set(**kw)
                    row.update(kw)
        elif kind in ('jedit', 'jassign'):
            h = self.pick(None, i)
            if h is None: done = False
            else:
                marker['target'] = list(h)
                o = self.obj(h)
                if kind == 'jedit':
                    self.edit_tracked(o, h, j % 3, v)
                elif f:
                    o.arr = [v] if w is None else [v, w]
                    cur.row(h)['arr'] = [v] if w is None else [v, w]
                    self.touch(h)
                else:
                    self.edit_tracked(o, h, 3, v)
        elif kind == 'move':
            k, p = self.pick('K', i), self.pick('P', j)
            if k is None or p is None: done = False
            else:
                self.obj(k).parent = self.obj(p)
                cur.K[k[1]]['parent'] = p[1]
                self.touch(k)
        elif kind == 'alt':
            k, p = self.pick('K', i), (None if f else self.pick('P', j))
            if k is None: done = False
            else:
                self.obj(k).alt = None if p is None else self.obj(p)
                cur.K[k[1]]['alt'] = p and p[1]
                self.touch(k)
        elif kind in ('alts_add', 'alts_remove'):
            p, k = self.pick('P', i), self.pick('K', j)
            if p is None or k is None: done = False
            elif kind == 'alts_add':
                self.obj(p).alts.add(self.obj(k))
                cur.K[k[1]]['alt'] = p[1]
                self.touch(k)
            else:
                mine = [tag for tag in sorted(cur.K) if cur.K[tag]['alt'] == p[1]]
                if not mine: done = False
                else:
                    tag = mine[j % len(mine)]
                    self.obj(p).alts.remove(self.obj(('K', tag)))
                    cur.K[tag]['alt'] = None
                    self.touch(('K', tag))
        elif kind == 'link':
            p, t = self.pick('P', i), self.pick('T', j)
            if p is None or t is None: done = False
            else:
                if f: self.obj(t).owners.add(self.obj(p))
                else: self.obj(p).tags.add(self.obj(t))
                cur.links.add((p[1], t[1]))
                self.stats.add('m2m_change')
        elif kind == 'unlink':
            links = sorted(cur.links)
            if not links: done = False
            else:
                ppk, tpk = links[i % len(links)]
                if f: self.obj(('T', tpk)).owners.remove(self.obj(('P', ppk)))
                else: self.obj(('P', ppk)).tags.remove(self.obj(('T', tpk)))
                cur.links.discard((ppk, tpk))
                self.stats.add('m2m_change')
        elif kind == 'del':
            h = self.pick(None, i)
            if h is None: done = False
            else:
                marker['target'] = list(h)
                o = self.obj(h)
                o.delete()
                gone = cur.delete(h)
                if len(gone) > 1: self.stats.add('cascade_delete')
                for g in gone:
                    self.registry.pop(g, None)
                    if g not in self.inserted: self.stats.add('create_delete_unflushed')
                    elif self.last_write.get(g, -1) > self.last_stmt.get(g, -1): self.stats.add('update_then_delete')
        elif kind == 'flush':
            if f: self.db.flush()
            else: orm.flush()
            self.check_flushed('flush s%d.%d' % (si, oi))
        elif kind == 'up':
            p = self.pick('P', i)
            older = [h for h in cur.live('P') if p is not None and h[1] < p[1]]
            if p is None or (not f and not older): done = False
            else:
                target = None if f else older[j % len(older)]
                self.obj(p).up = None if target is None else self.obj(target)
                cur.P[p[1]]['up'] = target and target[1]
                self.touch(p)
                if target is not None: self.stats.add('p_chain')
        elif kind == 'oflush':
            # attr selects the class of the flushed object: 'a' any, 'b' P, 'c' K/K2, 'h' T
            h = self.pick({'a': None, 'b': 'P', 'c': 'K', 'h': 'T'}[attr], i)
            if h is None: done = False
            else:
                marker['target'] = list(h)
                depth = self.unsaved_depth(h)
                begin = len(self.events)
                self.obj(h).flush()
                self.stats.add('obj_flush')
                if depth >= 1: self.stats.add('obj_flush_unsaved_principal')
                if depth >= 2: self.stats.add('obj_flush_unsaved_chain_2plus')
                if depth >= 3: self.stats.add('obj_flush_unsaved_chain_3plus')
                self.check_rows(begin, 'obj.flush() of %s:%s s%d.%d' % (h[0], h[1], si, oi))
        elif kind == 'query':
            which = i % 3
            if which == 0: orm.select(k for k in E['K'])[:]
            elif which == 1: orm.select(p for p in E['P'] if p.a >= 0)[:]     # (aggregates answer from the query cache without flushing)
            else: orm.select((t.id, orm.count(t.owners)) for t in E['T'])[:]
            self.check_flushed('auto-flush before query s%d.%d' % (si, oi))
        elif kind == 'commit':
            if f: self.db.commit()
            else: orm.commit()
            self.committed, self.committed_req = cur.copy(), self.required_model().copy()
            self.check_flushed('commit s%d.%d' % (si, oi))
            self.check_committed('commit s%d.%d' % (si, oi))
        elif kind == 'rollback':
            if f: self.db.rollback()
            else: orm.rollback()
            self.cur = self.committed.copy()
            self.after_effects = []
            self.registry.clear()
            self.stats.add('rollback')
            self.check_committed('rollback s%d.%d' % (si, oi))
        else:
            raise ValueError(kind)
        self.log({'t': 'op', 'ph': 'end', 's': si, 'j': oi, 'kind': kind, 'done': done})

    # ---- whole case --------------------------------------------------------------------------------------
    def run(self):
        """executes the history; returns None or the text of an unexpected exception"""
        global _CUR
        from pony import orm
        from vlib.runner import StopRun
        self.path = os.path.join(self.workdir, 'c33_%d.sqlite' % os.getpid())
        for p in (self.path, self.path + '-journal'):
            if os.path.exists(p): os.remove(p)
        prev = _CUR
        _CUR = self
        db = self.db = orm.Database()
        error = None
        try:
            self.E = define_entities(db)
            db.bind('sqlite', self.path, create_db=True, factory=LogConn)
            db.generate_mapping(create_tables=True)
            self.reader = sqlite3.connect(self.path)
            self.log({'t': 'setup_done'})
            for si, sess in enumerate(self.case['sessions']):
                self.registry = {}
                self.log({'t': 'session', 'ph': 'begin', 's': si})
                try:
                    with orm.db_session:
                        for oi, op in enumerate(sess['ops']):
                            self.exec_op(si, oi, op)
                        self.budget = self.case.get('budget', 0)
                        self.after_effects = []
                        self.log({'t': 'op', 'ph': 'begin', 's': si, 'j': 'exit', 'kind': 'exit_' + sess['end'], 'target': None})
                        if sess['end'] == 'rollback':
                            raise Abort()
                    # normal exit: commit
                    self.committed, self.committed_req = self.cur.copy(), self.required_model().copy()
                except Abort:
                    self.cur = self.committed.copy()
                    self.stats.add('rollback')
                self.log({'t': 'op', 'ph': 'end', 's': si, 'j': 'exit', 'kind': 'exit_' + sess['end'], 'done': True})
                self.log({'t': 'session', 'ph': 'end', 's': si})
                self.check_committed('end of session %d (%s)' % (si, sess['end']))
        except StopRun:
            raise
        except Exception as e:
            import traceback
            tb = traceback.extract_tb(e.__traceback__)
            where = ' <- '.join('%s:%d %s' % (os.path.basename(fr.filename), fr.lineno, fr.name) for fr in reversed(tb[-4:]))
            error = '%s: %s [%s]' % (type(e).__name__, e, where)
            # known Pony refusal outside this property (collection load meets its own unflushed m2m removal):
            # the history cannot be continued; counted as rejected, the log up to that point is still judged
            rejected = bool(type(e).__name__ == 'UnrepeatableReadError'
                            and re.match(r'Phantom object \S+ appeared in collection \S+$', str(e)))
            if rejected: self.stats.add('rejected_phantom_in_collection')
            self.log({'t': 'exception', 'text': error, 'trouble': isinstance(e, Trouble), 'rejected': rejected})
            try: orm.rollback()
            except Exception: pass
        finally:
            _CUR = prev
            try:
                if self.reader is not None: self.reader.close()
            except Exception: pass
            try: db.disconnect()
            except Exception: pass
            for c in self.rawconns:
                try: c.close()
                except Exception: pass
            for p in (self.path, self.path + '-journal'):
                try: os.remove(p)
                except OSError: pass
        return error


# ------------------------------------------------------------------------------------------------
# oracle (log only)
# ------------------------------------------------------------------------------------------------
def _fmt(handle):
    return '%s:%s' % (handle[0], handle[1])


def judge(events):
    """-> (violations, info): violations = list of message strings in log order (hook rules first per
    position), info = measured facts for coverage accounting."""
    kpk2tag = {}
    timeline = {}          # handle -> list of (pos, typ, kind)
    opspan = []            # pos -> (begin pos, kind, target) of the enclosing top-level operation
    ops = {}               # begin pos -> end pos
    cur_op = None
    violations = []
    hook_depth = 0
    info = {'statements': 0, 'hooks': 0, 'effects': [], 'nested_flush': False, 'trace': [],
            'stmt_in_before_hook': False}
    open_hooks = []
    setup_done = False
    for pos, ev in enumerate(events):
        t = ev['t']
        if t == 'op':
            if ev['ph'] == 'begin':
                cur_op = pos
                ops[pos] = None
            else:
                if cur_op is not None: ops[cur_op] = pos
                cur_op = None
        opspan.append(cur_op)
        if t == 'setup_done':
            setup_done = True
        elif t == 'hook':
            typ, kind = KIND_OF_HOOK[ev['hook']]
            if ev['cls'] in ('P', 'T'):
                handle = (ev['cls'], ev['pk'])
            elif ev['pk'] is not None:
                handle = ('K', kpk2tag.get(ev['pk'], 'pk%r?' % ev['pk']))
            else:
                handle = ('K', ev['tag'])
            timeline.setdefault(handle, []).append((pos, typ, kind))
            info['hooks'] += 1
            open_hooks.append((typ, handle))
            info['trace'].append('%s%s:%s:%s' % (typ, kind[0], ev['cls'], ev.get('did') or '-'))
            if ev.get('did') in ('mod_self', 'mod_other', 'mod_json', 'create_k', 'create_p', 'create_t'):
                info['effects'].append((typ, kind, ev['did']))
        elif t == 'hook_end':
            if open_hooks: open_hooks.pop()
        elif t == 'sql':
            if ev.get('error'): continue
            w = parse_write(ev['sql'], ev['params'], ev['lastrowid'])
            if w is None: continue
            kind, table, key, extra = w
            if kind == '?':
                violations.append((pos, '[unattributable] statement on entity table %r cannot be attributed to one object: %r %r'
                                   % (table, ev['sql'], ev['params'])))
                continue
            if table == 'k':
                if kind == 'insert': kpk2tag[key] = extra
                if key not in kpk2tag:
                    violations.append((pos, '[unattributable] %s on table k with unknown key %r' % (kind, key)))
                    continue
                handle = ('K', kpk2tag[key])
            else:
                handle = (ENTITY_TABLES[table], key)
            if cur_op is None and setup_done:
                violations.append((pos, '[statement_outside_operation] %s of %s executed outside any harness operation'
                                   % (kind, _fmt(handle))))
            timeline.setdefault(handle, []).append((pos, 'S', kind))
            info['statements'] += 1
            info['trace'].append('S%s:%s' % (kind[0], handle[0]))
            if open_hooks:
                if open_hooks[-1][0] == 'A': info['nested_flush'] = True
                else: info['stmt_in_before_hook'] = True

    def opdesc(pos):
        b = opspan[pos]
        if b is None: return 'outside-op'
        e = events[b]
        tgt = e.get('target')
        return 'during=%s(%s)' % (e['kind'], _fmt(tgt) if tgt else '')

    twice = False
    for handle in sorted(timeline, key=lambda h: (h[0], str(h[1]))):
        tl = timeline[handle]
        # --- before hooks: exactly one, of the matching kind, since the previous statement of this object
        pending = []
        nst_in_session = 0
        for (pos, typ, kind) in tl:
            if typ == 'B':
                pending.append((pos, kind))
            elif typ == 'S':
                if not pending:
                    violations.append((pos, '[before_missing] kind=%s obj=%s %s: the statement at log position %d was executed '
                                       'with no before_%s call for that object since its previous statement'
                                       % (kind, _fmt(handle), opdesc(pos), pos, kind)))
                else:
                    if len(pending) > 1:
                        violations.append((pos, '[before_repeated] kind=%s obj=%s %s: %d before-hook calls %r precede the single '
                                           'statement at log position %d' % (kind, _fmt(handle), opdesc(pos), len(pending),
                                                                             [k for _, k in pending], pos)))
                    elif pending[0][1] != kind:
                        violations.append((pos, '[before_wrong_kind] kind=%s obj=%s %s: before_%s ran, then a %s statement'
                                           % (kind, _fmt(handle), opdesc(pos), pending[0][1], kind)))
                pending = []
        for (pos, kind) in pending:
            violations.append((pos, '[hook_without_statement] kind=%s obj=%s %s: before_%s ran but no %s statement followed'
                               % (kind, _fmt(handle), opdesc(pos), kind, kind)))
        # --- after hooks: per kind, the j-th after-hook follows the j-th statement, inside the same operation
        for kind in ('insert', 'update', 'delete'):
            S = [pos for (pos, typ, k) in tl if typ == 'S' and k == kind]
            A = [pos for (pos, typ, k) in tl if typ == 'A' and k == kind]
            for n in range(max(len(S), len(A))):
                if n >= len(A):
                    violations.append((S[n], '[after_missing] kind=%s obj=%s %s: no after_%s call for the statement at log position %d'
                                       % (kind, _fmt(handle), opdesc(S[n]), kind, S[n])))
                elif n >= len(S):
                    violations.append((A[n], '[after_extra] kind=%s obj=%s %s: after_%s call at log position %d has no statement'
                                       % (kind, _fmt(handle), opdesc(A[n]), kind, A[n])))
                else:
                    b = opspan[S[n]]
                    end = ops.get(b) if b is not None else None
                    if A[n] < S[n]:
                        violations.append((A[n], '[after_early] kind=%s obj=%s %s: after_%s call at log position %d precedes its '
                                           'statement at %d' % (kind, _fmt(handle), opdesc(S[n]), kind, A[n], S[n])))
                    elif end is not None and A[n] > end:
                        violations.append((S[n], '[after_late] kind=%s obj=%s %s: after_%s ran only at log position %d, after the '
                                           'operation that executed the statement (position %d) had returned (position %d)'
                                           % (kind, _fmt(handle), opdesc(S[n]), kind, A[n], S[n], end)))
        # measured: object saved more than once inside one session
        sess = None
        count = 0
        spos = [pos for (pos, typ, k) in tl if typ == 'S']
        for pos in spos:
            s = events[opspan[pos]]['s'] if opspan[pos] is not None else None
            if s == sess: count += 1
            else: sess, count = s, 1
            if count >= 2: twice = True
    info['twice_in_session'] = twice

    aborted_from = None
    info['rejected'] = False
    for pos, ev in enumerate(events):
        if ev['t'] == 'dbcheck' and ev['diff']:
            violations.append((pos, '[db_%s] after %s the tables differ from what program and hooks wrote: %s'
                               % (ev['view'], ev['when'], ev['diff'])))
        elif ev['t'] == 'exception':
            # the operation that raised was cut short: hook calls without their statement / statements without their
            # after-hook inside it are consequences of the exception, which is reported (or counted as rejected) itself
            begins = [b for b, e in ops.items() if e is None]
            aborted_from = min(begins) if begins else pos
            if ev.get('rejected'): info['rejected'] = True
            else: violations.append((pos, '[exception] %s' % ev['text']))
    if aborted_from is not None:
        violations = [(pos, m) for pos, m in violations
                      if not (pos >= aborted_from and m.startswith(('[hook_without_statement]', '[after_missing]')))]
    violations.sort(key=lambda x: x[0])
    return [m for _, m in violations], info


def run_case(case, workdir):
    """-> (violations, info, runner)"""
    r = Runner(case, workdir)
    r.run()
    violations, info = judge(r.events)
    return violations, info, r
