"""B7: fault-injecting DB-API layer for SQLite (shared by C17 and C19).

`make_factory(rec)` returns a `sqlite3.Connection` subclass to be passed to Pony as
`db.bind('sqlite', filename, create_db=True, factory=<that class>, timeout=0)` (bind kwargs reach `sqlite3.connect`).
Every DB-API call Pony makes on the connection or on one of its cursors

    connect, cursor, execute, executemany, commit, rollback, close

is appended to `rec.calls` with a running index.  Calls made before `rec.start()` (binding the database) have index None
and are never fault points; after `rec.start()` the indices are 0, 1, 2, ...

A *plan* is a JSON list of fault entries, fired in order (a chain):

    {"at": k, "when": "before"|"after", "exc": "operational"|"integrity"|"crash"}
        fires at call index k
    {"next": kind, "nth": n, "when": ..., "exc": ...}
        armed once the previous entry has fired; fires at the n-th later call of that kind ("any" = any kind)

"before": the call is not performed, a genuine sqlite3.OperationalError / sqlite3.IntegrityError is raised instead;
"after":  the call is performed (its effect on the database is real) and then the error is raised; a statement that
          was executed is run to completion first, so that no active statement outlives the failed call;
"crash":  os._exit(137) before / after performing the call (only meaningful in a child process).
"freeze": the run is abandoned right before / after the call: `Frozen` (a BaseException) is raised and from that moment
          EVERY later DB-API call through this recorder raises `Frozen` too without reaching SQLite, so none of the caller's
          cleanup code (rollback, close) touches the connection; the connection object stays referenced by the recorder,
          exactly as it was, with its transaction open.  Used by crash runners that abandon many independent runs at their
          fault points in one child process and then kill that process with os._exit(137).
A connect call that fails "after" closes the raw connection itself first (the driver, not the caller, owns a connection
that was never handed out).  A close call that fails "before" leaves the connection open by the plan's doing; such a
connection is flagged `close_refused` so that nobody is blamed for it.

The recorder also keeps one record per connection object (who created it, whether it is closed, how many times close()
was called, which calls arrived after it was closed).
"""
import os, sqlite3, threading

KINDS = ('connect', 'cursor', 'execute', 'executemany', 'commit', 'rollback', 'close')
EXC = {'operational': sqlite3.OperationalError, 'integrity': sqlite3.IntegrityError}
MARK = 'injected fault'


class Frozen(BaseException):
    """the run was abandoned at its fault point; nothing reaches SQLite through this recorder any more"""


class ConnRec(object):
    __slots__ = ('serial', 'obj', 'tid', 'opened', 'closed', 'close_calls', 'used_after_close', 'close_refused',
                 'never_handed_out', 'tag')

    def __init__(self, serial, obj, tid):
        self.serial = serial
        self.obj = obj
        self.tid = tid
        self.opened = False           # Connection.__init__ completed
        self.closed = False           # a close() call was performed
        self.close_calls = 0          # close() calls that were performed (not refused by the plan)
        self.used_after_close = []    # (index, kind) of calls that arrived after a performed close()
        self.close_refused = False    # the plan made a close() fail before it was performed
        self.never_handed_out = False  # connect failed: the caller never saw this object
        self.tag = None               # which factory made it (several databases may share one recorder)

    def is_open(self):
        """ask SQLite itself (a closed connection refuses every operation)"""
        if not self.opened:
            return False
        try:
            sqlite3.Connection.cursor(self.obj)
            return True
        except sqlite3.ProgrammingError as e:
            if 'thread' in str(e):       # asked from another thread: fall back on the book-keeping
                return not self.closed
            return False

    def describe(self):
        return {'conn': self.serial, 'tid': self.tid, 'closed': self.closed, 'close_calls': self.close_calls,
                'used_after_close': list(self.used_after_close), 'close_refused': self.close_refused}


class Recorder(object):
    def __init__(self, plan=None, probe=None):
        self.mutex = threading.Lock()
        self.calls = []
        self.conns = []
        self.by_id = {}
        self.tids = {}
        self.base = None              # len(calls) at start(); None = still binding
        self.plan = [dict(p) for p in (plan or [])]
        self.next_entry = 0           # first plan entry that has not fired yet
        self.armed_count = 0          # calls of the awaited kind seen since the chained entry was armed
        self.fired = []               # (plan position, call index)
        self.probe = probe            # optional callable -> JSON-able value stored with each call (e.g. lock state)
        self.on_call = None           # optional callable(entry) invoked before a call is performed (yield points)
        self.dead = False             # set by a "freeze" fault

    # ------------------------------------------------------------------ control
    def start(self):
        self.base = len(self.calls)

    def count(self):
        """number of indexed calls so far"""
        return 0 if self.base is None else len(self.calls) - self.base

    def indexed(self):
        return [] if self.base is None else self.calls[self.base:]

    def tid(self):
        ident = threading.get_ident()
        t = self.tids.get(ident)
        if t is None:
            t = self.tids[ident] = len(self.tids)
        return t

    def conn_rec(self, conn):
        r = self.by_id.get(id(conn))
        if r is None or r.obj is not conn:
            r = ConnRec(len(self.conns), conn, self.tid())
            self.conns.append(r)
            self.by_id[id(conn)] = r
        return r

    # ------------------------------------------------------------------ plan matching (under mutex)
    def _match(self, idx, kind):
        if idx is None or self.next_entry >= len(self.plan):
            return None
        e = self.plan[self.next_entry]
        if 'at' in e:
            if e['at'] != idx:
                return None
        else:
            if self.next_entry == 0:
                return None           # a chained entry needs a predecessor
            if e.get('next', 'any') not in ('any', kind):
                return None
            n = self.armed_count
            self.armed_count += 1
            if n != e.get('nth', 0):
                return None
        self.fired.append((self.next_entry, idx))
        self.next_entry += 1
        self.armed_count = 0
        return e

    # ------------------------------------------------------------------ the one entry point of every wrapped call
    def call(self, kind, conn, sql, do, undo=None):
        if self.dead:
            raise Frozen()
        with self.mutex:
            crec = self.conn_rec(conn)
            idx = None if self.base is None else len(self.calls) - self.base
            entry = {'i': idx, 'kind': kind, 'conn': crec.serial, 'tid': self.tid(), 'sql': sql if sql is None else sql[:120],
                     'in_tx': _in_tx(conn) if kind != 'connect' else False, 'fault': None, 'result': None}
            if self.probe is not None:
                entry['probe'] = self.probe()
            self.calls.append(entry)
            fault = self._match(idx, kind)
            if crec.closed and kind != 'close':
                crec.used_after_close.append((idx, kind))
        if self.on_call is not None:
            self.on_call(entry)
        if fault is not None and fault.get('when', 'before') == 'before':
            entry['fault'] = 'before'
            if fault['exc'] == 'crash':
                os._exit(137)
            if fault['exc'] == 'freeze':
                self.dead = True
                raise Frozen()
            if kind == 'close':
                crec.close_refused = True
            if kind == 'connect':
                crec.never_handed_out = True
            entry['result'] = 'injected'
            raise EXC[fault['exc']]('%s #%s before %s' % (MARK, idx, kind))
        try:
            res = do()
        except BaseException as e:
            entry['result'] = 'raised:' + type(e).__name__
            if kind == 'connect':
                crec.never_handed_out = True
            raise
        if kind == 'connect':
            crec.opened = True
        elif kind == 'close':
            crec.close_calls += 1
            crec.closed = True
        elif kind in ('execute', 'executemany'):
            try:
                entry['rowcount'] = res.rowcount
            except Exception:
                pass
        entry['result'] = 'ok'
        if fault is not None:
            entry['fault'] = 'after'
            if fault['exc'] == 'crash':
                os._exit(137)
            if fault['exc'] == 'freeze':
                self.dead = True
                raise Frozen()
            if kind == 'connect':
                crec.never_handed_out = True
                if undo is not None:
                    undo()
                crec.closed = True
            if kind in ('execute', 'executemany'):
                # a driver that reports an error for a statement does not leave that statement active (an active SELECT
                # would keep its SHARED file lock for as long as the cursor object lives): run it to completion first
                try:
                    res.fetchall()
                except Exception:
                    pass
            entry['result'] = 'injected'
            raise EXC[fault['exc']]('%s #%s after %s' % (MARK, idx, kind))
        return res

    # ------------------------------------------------------------------ reporting
    def brief(self, lo=0, hi=None):
        out = []
        for e in self.indexed()[lo:hi]:
            s = '%s:%s' % (e['i'], e['kind'])
            if e['sql']:
                s += '(%s)' % e['sql'][:40]
            if e['fault']:
                s += '!' + e['fault']
            elif e['result'] not in ('ok', None):
                s += '!' + e['result']
            out.append(s)
        return out


def _in_tx(conn):
    try:
        return bool(sqlite3.Connection.in_transaction.__get__(conn))
    except Exception:
        return False


def make_factory(rec, fsync=False, tag=None):
    """Connection class (for sqlite3.connect(factory=...)) whose calls go through `rec`.
    fsync=False: every new connection gets PRAGMA synchronous=OFF (not logged, not a fault point).  SQLite then still
    writes its rollback journal before touching the database file, it only stops waiting for the disk; that matters for
    power loss, not for errors or for the death of the process, and it makes a COMMIT ~100x cheaper."""

    class FaultCursor(sqlite3.Cursor):
        def execute(self, sql, *args):
            return rec.call('execute', self.connection, sql, lambda: sqlite3.Cursor.execute(self, sql, *args))

        def executemany(self, sql, *args):
            return rec.call('executemany', self.connection, sql, lambda: sqlite3.Cursor.executemany(self, sql, *args))

    class FaultConnection(sqlite3.Connection):
        def __init__(self, *args, **kwargs):
            rec.conn_rec(self).tag = tag

            def do():
                sqlite3.Connection.__init__(self, *args, **kwargs)
                if not fsync:
                    sqlite3.Connection.execute(self, 'PRAGMA synchronous=OFF')
            rec.call('connect', self, None, do, undo=lambda: sqlite3.Connection.close(self))

        def cursor(self, factory=None):
            return rec.call('cursor', self, None, lambda: sqlite3.Connection.cursor(self, FaultCursor))

        def execute(self, sql, *args):
            # Connection.execute does not go through self.cursor() in CPython: log it here
            return rec.call('execute', self, sql, lambda: sqlite3.Connection.execute(self, sql, *args))

        def executemany(self, sql, *args):
            return rec.call('executemany', self, sql, lambda: sqlite3.Connection.executemany(self, sql, *args))

        def commit(self):
            return rec.call('commit', self, None, lambda: sqlite3.Connection.commit(self))

        def rollback(self):
            return rec.call('rollback', self, None, lambda: sqlite3.Connection.rollback(self))

        def close(self):
            return rec.call('close', self, None, lambda: sqlite3.Connection.close(self))

    return FaultConnection


def is_injected(exc):
    """True when `exc` (or anything in its cause/context/original_exc chain) is an injected fault"""
    seen = set()
    stack = [exc]
    while stack:
        x = stack.pop()
        if x is None or id(x) in seen:
            continue
        seen.add(id(x))
        if isinstance(x, BaseException) and MARK in str(x):
            return True
        if isinstance(x, BaseException):
            stack.append(getattr(x, '__cause__', None))
            stack.append(getattr(x, '__context__', None))
            stack.append(getattr(x, 'original_exc', None))
            for item in getattr(x, 'exceptions', None) or ():
                if isinstance(item, tuple) and len(item) > 1:
                    stack.append(item[1])
                else:
                    stack.append(item)
    return False


def read_database(filename):
    """database content through a separate plain sqlite3 connection: {table: sorted rows} (internal tables skipped).
    Opening the file also makes SQLite roll back a hot journal left by a dead process."""
    con = sqlite3.connect(filename, timeout=5, isolation_level=None)
    try:
        names = [r[0] for r in con.execute("select name from sqlite_master where type='table' order by name")]
        out = {}
        for n in names:
            if n.startswith('sqlite_'):
                continue
            rows = con.execute('select * from "%s"' % n.replace('"', '""')).fetchall()
            out[n] = sorted([list(r) for r in rows], key=repr)
        return out
    finally:
        con.close()
