"""C35: locking / serializable sessions against concurrent writers (uses vlib.sched, design block B9).

case = {'layout': 'multi'|'shared', 'rows': [[a, b, c] per row (1-2 rows)],
        'actors': [{'session': {db_session kwargs}, 'ops': [...], 'end': 'commit'|'rollback'}, ...], 'schedule': [...]}
ops (ints reduced modulo the candidates):
  ['lock', o, how]                 locking lookup (LOCK_HOWS)
  ['fetch', o]                     E[pk]
  ['read', o, attr, reg]           reg := obj.attr
  ['write', o, attr, reg, const]   obj.attr = (reg + const) % 100 when reg was read from the same object, else const % 100
  ['flush']
  ['create']                       create a new row E[10 + actor index] (a created object counts as locked by its session)
  ['commit']                       commit() in the middle of the db_session (ends the transaction, the session cache goes on)
  ['restart']                      leave db_session (commit) and enter a new one on the same Database
A register is only usable in the transaction in which it was read.
An actor with 'catch_lock': True catches 'database is locked' raised by an operation (not by commit) and goes on in the same session.
Every executed op reports its *effective* form, from which `serial_results` (a tiny reference interpreter) computes what any
serial execution of the committed sessions would have left in the database.
"""
import os, sys, shutil, itertools
from vlib import sched

ATTRS = ['a', 'b', 'c']
LOCK_HOWS = ['get_for_update', 'get_for_update_nowait', 'get_for_update_skip_locked', 'select_for_update',
             'select_for_update_nowait', 'select_for_update_skip_locked', 'select_all_for_update', 'get_for_update_lambda']
NREGS = 3


def define(db):
    from pony.orm import PrimaryKey, Required

    class E(db.Entity):
        id = PrimaryKey(int)
        a = Required(int)
        b = Required(int)
        c = Required(int)
    return {'E': E}


class Env(object):
    def __init__(self, workdir):
        self.workdir = workdir
        self.worlds = {}

    def world(self, layout):
        w = self.worlds.get(layout)
        if w is None:
            fn = os.path.join(self.workdir, 'c35_%s.sqlite' % layout)
            w = self.worlds[layout] = sched.World(fn, 3, layout, define)
        return w

    def close(self):
        for w in self.worlds.values():
            w.close()
        self.worlds = {}


def case_rows(case):
    rows = [list(r) for r in case['rows'][:2]] or [[0, 0, 0]]
    return [[(r[j] if j < len(r) else 0) % 100 for j in range(3)] for r in rows]


def reset_rows(world, rows):
    mon = world.monitor()
    mon.execute('BEGIN IMMEDIATE')
    mon.execute('DELETE FROM "E"')
    for i, r in enumerate(rows):
        mon.execute('INSERT INTO "E"("id", "a", "b", "c") VALUES (?, ?, ?, ?)', [i + 1] + r)
    mon.execute('COMMIT')


def snapshot_fn(world):
    mon = world.monitor()

    def snapshot():
        return {row[0]: {'a': row[1], 'b': row[2], 'c': row[3]}
                for row in mon.execute('SELECT "id", "a", "b", "c" FROM "E" ORDER BY "id"').fetchall()}
    return snapshot


def make_exec(case):
    inner = _make_exec(case)

    def exec_op(st, op):
        if not st.spec.get('catch_lock') or op[0] in ('commit', 'restart'):
            return inner(st, op)
        # the application catches 'database is locked' from a lookup / flush and goes on (retries) in the same db_session
        try:
            return inner(st, op)
        except Exception as e:
            if not sched.is_lock_error(e):
                raise
            return {'op': op[0], 'eff': [], 'locked': [], 'touched': [], 'caught': '%s: %s' % (type(e).__name__, str(e)[:80])}
    return exec_op


def _make_exec(case):
    nrows = len(case_rows(case))

    def exec_op(st, op):
        from pony.orm import select, flush
        E = st.classes['E']
        name = op[0]
        regs = st.data.setdefault('regs', [[0, None] for _ in range(NREGS)])     # value, source pk
        rec = {'op': name, 'eff': [], 'locked': [], 'touched': []}
        if name == 'flush':
            flush()
            return rec
        if name in ('commit', 'restart'):
            # the transaction ends here: its locks are released, and values read in it may not be carried into the next one
            if name == 'commit':                 # commit in the middle of the db_session; the session cache goes on
                from pony.orm import commit
                commit()
            else:                                # leave db_session (commit) and enter a new one on the same Database
                from pony.orm import db_session
                opts = st.spec.get('session', {})
                try:
                    st.session.__exit__()
                except Exception:
                    st.session = db_session(**opts)     # the failed session is over; give the generic failure path one to close
                    st.session.__enter__()
                    raise
                st.objs.clear()
                st.session = db_session(**opts)
                st.session.__enter__()
            for r in regs:
                r[1] = None
            return rec
        if name == 'create':
            # a new object of the session (Pony treats objects it created like locked ones until the transaction ends)
            pk = 10 + st.idx
            st.objs[pk] = E(id=pk, a=0, b=0, c=0)
            rec['eff'].append(['c', pk])
            return rec
        pk = 1 + op[1] % nrows
        if name == 'lock':
            how = LOCK_HOWS[op[2] % len(LOCK_HOWS)]
            rec['how'] = how
            g = {'E': E}
            if how.startswith('get_for_update'):
                kw = {}
                if how.endswith('nowait'):
                    kw['nowait'] = True
                if how.endswith('skip_locked'):
                    kw['skip_locked'] = True
                if how == 'get_for_update_lambda':
                    o = E.get_for_update('lambda x: x.id == pk', g, {'pk': pk})
                else:
                    o = E.get_for_update(id=pk, **kw)
                objs = [] if o is None else [o]
            elif how == 'select_all_for_update':
                objs = list(E.select().for_update()[:])
            else:
                q = select('x for x in E if x.id == pk', g, {'pk': pk})
                q = q.for_update(nowait=how.endswith('nowait'), skip_locked=how.endswith('skip_locked'))
                objs = list(q[:])
            for o in objs:
                st.objs[o.id] = o
                rec['locked'].append(o.id)
            rec['touched'] = sorted(rec['locked'])
            return rec
        o = st.objs.get(pk)
        if o is None:
            o = st.objs[pk] = E[pk]
        rec['touched'] = [pk]
        if name == 'fetch':
            return rec
        attr = ATTRS[op[2] % 3]
        if name == 'read':
            reg = op[3] % NREGS
            val = getattr(o, attr)
            regs[reg] = [val, pk]
            rec['eff'].append(['r', pk, attr, reg, val])
        elif name == 'write':
            reg = op[3] % (NREGS + 1)
            const = op[4] % 100
            if reg < NREGS and regs[reg][1] == pk:
                val = (regs[reg][0] + const) % 100
            else:
                reg = None
                val = const
            setattr(o, attr, val)
            rec['eff'].append(['w', pk, attr, reg, const, val])
        else:
            raise ValueError('unknown op %r' % (op,))
        return rec
    return exec_op


def _orders(owners):
    """all orders of the transactions 0..len(owners)-1 in which the transactions of one actor keep their own order"""
    n = len(owners)
    out = []

    def rec(prefix, used):
        if len(prefix) == n:
            out.append(tuple(prefix))
            return
        seen = set()
        for k in range(n):
            if k in used or owners[k] in seen:
                continue
            seen.add(owners[k])           # only the first unused transaction of each actor may come next
            rec(prefix + [k], used | {k})
    rec([], frozenset())
    return out


def serial_results(initial, programs, owners=None):
    """all final states reachable by running the committed transactions (effective programs) one after another in some
    order (transactions of the same actor in their own order); registers start empty in every transaction"""
    if owners is None:
        owners = list(range(len(programs)))
    out = []
    for perm in _orders(owners):
        state = {pk: dict(row) for pk, row in initial.items()}
        for i in perm:
            regs = [0] * NREGS
            for e in programs[i]:
                if e[0] == 'r':
                    regs[e[3]] = state[e[1]][e[2]]
                elif e[0] == 'c':
                    state[e[1]] = {'a': 0, 'b': 0, 'c': 0}
                else:
                    _, pk, attr, reg, const = e[:5]
                    state[pk][attr] = ((regs[reg] if reg is not None else 0) + const) % 100
        out.append((perm, state))
    return out


def fmt_trace(case, events):
    out = []
    for ev in events:
        i = ev['actor']
        spec = case['actors'][i]
        ops = spec['ops']
        op = ops[ev['op']] if ev['op'] < len(ops) else ['end:' + spec.get('end', 'commit')]
        if ev['outcome'] == 'ok':
            v = ev['value']
            r = ''
            if isinstance(v, dict):
                r = ' '.join(filter(None, [v.get('how', ''), 'CAUGHT %s' % v['caught'] if v.get('caught') else '',
                                           'locked=%s' % v['locked'] if v.get('locked') else '',
                                           'effect=%s' % v['eff'] if v.get('eff') else '']))
            if ev['before'] != ev['after']:
                r += ' COMMITTED -> %s' % ev['after']
        elif ev['outcome'] == 'raised':
            r = 'RAISED %s: %s' % (type(ev['error']).__name__, str(ev['error'])[:140])
        else:
            r = 'BLOCKED on ' + ev['lock']
        out.append('#%d a%d(%s) %s -> %s' % (ev['step'], i, ','.join('%s=%s' % kv for kv in sorted(spec.get('session', {}).items())) or 'default', op, r))
    return '\n    '.join(out)


class Verdict(object):
    def __init__(self):
        self.message = None
        self.classes = set()
        self.nontrivial = False


INTERNAL = ('AssertionError', 'KeyError', 'AttributeError', 'IndexError', 'TypeError', 'RuntimeError')


def judge(case, events, states, initial, deadlock=None):
    v = Verdict()
    n = len(case['actors'])

    def fail(msg):
        if v.message is None:
            v.message = msg + '\n  history:\n    ' + fmt_trace(case, events)

    if deadlock is not None:
        fail('deadlock: %s (a session stays blocked although every other session has finished or is blocked too)' % deadlock)
        return v
    protected = [dict() for _ in range(n)]     # pk -> step from which the row is protected by the CURRENT transaction of i
    windows = []                               # closed protection windows (actor, pk, since, until)
    current = [[] for _ in range(n)]           # effects of the current (uncommitted) transaction of actor i
    first = [None] * n
    end = [None] * n
    wrote = [dict() for _ in range(n)]         # pk -> steps of write ops
    txs = []                                   # committed transactions in commit order: (actor, commit step, effects)
    holder = set()                             # actors that locked a row or created an object at some point

    def close_tx(i, step):
        for pk, since in protected[i].items():
            windows.append((i, pk, since, step))
        protected[i] = {}
        current[i] = []

    for ev in events:
        i = ev['actor']
        spec = case['actors'][i]
        sess = spec.get('session', {})
        is_end = ev['op'] >= len(spec['ops'])
        if first[i] is None:
            first[i] = ev['step']
        if ev['outcome'] == 'blocked':
            v.classes.add('waited')
            continue
        opname = 'end' if is_end else spec['ops'][ev['op']][0]
        commit_step = (is_end and spec.get('end', 'commit') == 'commit') or opname in ('commit', 'restart')
        # (1) rows protected by another session's open transaction must not change under it
        if ev['before'] != ev['after']:
            for j in range(n):
                if j == i:
                    continue
                for pk, since in protected[j].items():
                    if ev['before'].get(pk) != ev['after'].get(pk):
                        fail('E[%d] was %s by session %d since step #%d, yet step #%d of session %d changed the committed row from '
                             '%r to %r before that transaction of session %d ended'
                             % (pk, 'read in a serializable session' if case['actors'][j].get('session', {}).get('serializable')
                                else 'locked for update', j, since, ev['step'], i, ev['before'].get(pk), ev['after'].get(pk), j))
            if not (commit_step and ev['outcome'] == 'ok'):
                fail('step #%d of session %d (%s, outcome %s) changed the committed database although the session did not commit'
                     % (ev['step'], i, opname, ev['outcome']))
        if ev['outcome'] == 'raised':
            e = ev['error']
            en = type(e).__name__
            end[i] = ev['step']
            close_tx(i, ev['step'])
            if sched.is_lock_error(e):
                v.classes.add('lock_error')
            elif en in ('OptimisticCheckError', 'UnrepeatableReadError'):
                v.classes.add('optimistic_fail')
            elif en in INTERNAL and sched.raised_inside_pony(e):
                if opname == 'lock':
                    fail('the locking lookup %r of session %d raised %s(%s) from inside Pony: the rows were neither locked nor '
                         'was a lock conflict reported' % (spec['ops'][ev['op']], i, en, str(e)[:200]))
                elif commit_step and en == 'RuntimeError' and 'release unlocked lock' in str(e):
                    fail('session %d: ending the transaction released a provider lock it did not hold (%s)' % (i, e))
                else:
                    v.classes.add('internal_error:' + en)
            else:
                v.classes.add('fail:' + en)
            continue
        if commit_step:
            txs.append((i, ev['step'], current[i]))
            if not is_end:
                v.classes.add('mid_commit' if opname == 'commit' else 'restart')
        if is_end:
            end[i] = ev['step']
        if is_end or commit_step:
            close_tx(i, ev['step'])
            continue
        rec = ev['value']
        if rec.get('caught'):
            v.classes.add('caught_lock_error')
            v.classes.add('lock_error')
        current[i].extend(rec['eff'])
        if rec['locked'] or any(e[0] == 'c' for e in rec['eff']):
            holder.add(i)
        if any(e[0] == 'c' for e in rec['eff']):
            v.classes.add('created')
        for pk in rec['locked']:
            protected[i].setdefault(pk, ev['step'])
            v.classes.add('for_update')
        if sess.get('serializable'):
            v.classes.add('serializable')
            for pk in rec['touched']:
                protected[i].setdefault(pk, ev['step'])
        for e in rec['eff']:
            if e[0] == 'w':
                wrote[i].setdefault(e[1], []).append(ev['step'])
    for i in range(n):
        close_tx(i, events[-1]['step'] if events else 0)
    # (2) no committed write is lost: the final database is the result of some serial order of the committed transactions
    final = events[-1]['after'] if events else initial
    owners = [t[0] for t in txs]
    results = serial_results(initial, [t[2] for t in txs], owners)
    if not any(state == final for perm, state in results):
        fail('the final database %r is not the result of any serial order of the committed transactions %r (serial results: %s); '
             'a committed write was lost or overwritten from a stale read'
             % (final, ['a%d@#%d' % (t[0], t[1]) for t in txs],
                '; '.join('%s -> %r' % (['a%d@#%d' % (txs[k][0], txs[k][1]) for k in perm], state) for perm, state in results[:6])))
    if len(set(owners)) >= 2:
        v.classes.add('two_committed')
    # non-trivial: a row was protected by a transaction of one session while another session that writes it was alive
    for (j, pk, since, until) in windows:
        for i in range(n):
            if i == j or first[i] is None:
                continue
            if pk in wrote[i] and first[i] < until and (end[i] is None or end[i] > since):
                v.nontrivial = True
                v.classes.add('contended')
    # ... or a session that holds a lock / a created object rewrote another row that a concurrent session changed meanwhile
    locked_ever = {}
    for (j, pk, since, until) in windows:
        locked_ever.setdefault(j, set()).add(pk)
    for i in holder:
        for (t, cstep, eff) in txs:
            if t == i or first[i] is None or not (first[i] < cstep and (end[i] is None or cstep < end[i])):
                continue
            for e in eff:
                if e[0] == 'w' and e[1] in wrote[i] and e[1] not in locked_ever.get(i, ()):
                    v.nontrivial = True
                    v.classes.add('otherrow')
    return v


def run_case(env, case):
    world = env.world(case['layout'])
    rows = case_rows(case)
    reset_rows(world, rows)
    snap = snapshot_fn(world)
    initial = snap()
    world.open_case(len(case['actors']))
    try:
        try:
            events, states = sched.run_sessions(world, case['actors'], make_exec(case), case['schedule'], snap)
        except sched.Deadlock as d:
            return judge(case, [], [], initial, deadlock=str(d)), []
    finally:
        world.close_case()
    return judge(case, events, states, initial), events


def replay_case(case):
    if case.get('kind') == 'pg':
        return pg_check(case)
    d = sched.new_workdir('c35replay')
    env = Env(d)
    try:
        verdict, info = run_case(env, case)
        return verdict.message
    finally:
        env.close()
        shutil.rmtree(d, ignore_errors=True)


# ---------------------------------------------------------------------------------------------------------------------
# PostgreSQL: SQL text of locking queries (real PGProvider over stub driver modules and a recording mock pool)
# ---------------------------------------------------------------------------------------------------------------------

STUBS = os.path.join(os.path.dirname(os.path.abspath(__file__)), 'stubs')


class _PgCursor(object):
    description = []
    rowcount = 0
    arraysize = 1

    def __init__(self, con):
        self.con = con

    def execute(self, sql, args=None):
        self.con.log.append(('execute', sql, self.con.autocommit))

    def executemany(self, sql, args=None):
        self.con.log.append(('execute', sql, self.con.autocommit))

    def fetchone(self):
        return None

    def fetchall(self):
        return []

    def fetchmany(self, size=1):
        return []

    def close(self):
        pass


class _PgConnection(object):
    server_version = 120004

    def __init__(self, log):
        self.log = log
        self._autocommit = True

    @property
    def autocommit(self):
        return self._autocommit

    @autocommit.setter
    def autocommit(self, v):
        self._autocommit = v
        self.log.append(('autocommit', v, None))

    def cursor(self):
        return _PgCursor(self)

    def commit(self):
        self.log.append(('commit', None, self._autocommit))

    def rollback(self):
        self.log.append(('rollback', None, self._autocommit))

    def close(self):
        pass


class _PgPool(object):
    def __init__(self, log):
        self.log = log
        self.con = None

    def connect(self):
        if self.con is None:
            self.con = _PgConnection(self.log)
            return self.con, True
        return self.con, False

    def release(self, con):
        con.rollback()
        con.autocommit = True

    def drop(self, con):
        self.con = None

    def disconnect(self):
        self.con = None


_pg = {}


def pg_world():
    if 'db' in _pg:
        return _pg
    if STUBS not in sys.path:
        sys.path.append(STUBS)
    import importlib
    from pony.orm import Database, PrimaryKey, Required, Optional, Set
    provider_cls = importlib.import_module('pony.orm.dbproviders.postgres').provider_cls
    log = []
    db = Database()

    class G(db.Entity):
        id = PrimaryKey(int)
        name = Required(str)
        es = Set('E')

    class E(db.Entity):
        id = PrimaryKey(int)
        a = Required(int)
        s = Optional(str)
        g = Optional(G)
    db.bind(provider_cls, pony_pool_mockup=_PgPool(log))
    db.generate_mapping(check_tables=False)
    _pg.update(db=db, E=E, G=G, log=log)
    return _pg


PG_SHAPES = ['get_kw', 'get_kw2', 'get_lambda', 'select_all', 'select_filter', 'select_order', 'select_limit', 'select_join',
             'select_entity_filter', 'select_first']


def pg_check(case):
    """case = {'kind': 'pg', 'shape': i, 'nowait': bool, 'skip_locked': bool, 'lock': bool, 'session': {...}, 'param': int}
    -> violation message or None"""
    from pony.orm import db_session, select
    w = pg_world()
    db, E, G, log = w['db'], w['E'], w['G'], w['log']
    shape = PG_SHAPES[case['shape'] % len(PG_SHAPES)]
    nowait, skip, lock = bool(case.get('nowait')), bool(case.get('skip_locked')), bool(case.get('lock', True))
    p = case.get('param', 1)
    g = {'E': E, 'G': G}
    del log[:]
    err = None
    try:
        with db_session(**case.get('session', {})):
            mark = len(log)
            if shape.startswith('get_'):
                if not lock:
                    if shape == 'get_kw':
                        E.get(id=p)
                    elif shape == 'get_kw2':
                        E.get(a=p, s='x')
                    else:
                        E.get('lambda x: x.a == p', g, {'p': p})
                else:
                    kw = {}
                    if nowait:
                        kw['nowait'] = True
                    if skip:
                        kw['skip_locked'] = True
                    if shape == 'get_kw':
                        E.get_for_update(id=p, **kw)
                    elif shape == 'get_kw2':
                        E.get_for_update(a=p, s='x', **kw)
                    else:
                        E.get_for_update('lambda x: x.a == p', g, {'p': p}, **kw)
            else:
                if shape == 'select_all':
                    q = E.select()
                elif shape == 'select_filter':
                    q = select('x for x in E if x.a > p', g, {'p': p})
                elif shape == 'select_order':
                    q = select('x for x in E if x.a > p', g, {'p': p}).order_by('x.a')
                elif shape == 'select_limit':
                    q = select('x for x in E if x.a > p', g, {'p': p}).order_by('x.id')
                elif shape == 'select_join':
                    q = select('x for x in E if x.g.name == "n" and x.a > p', g, {'p': p})
                elif shape == 'select_entity_filter':
                    q = E.select('lambda x: x.s == "q" and x.a != p', g, {'p': p})
                else:
                    q = select('x for x in E if x.a < p', g, {'p': p})
                if lock:
                    q = q.for_update(nowait=nowait, skip_locked=skip)
                if shape == 'select_limit':
                    q[:3]
                elif shape == 'select_first':
                    q.first()
                else:
                    q[:]
            stmts = list(log[mark:])
    except TypeError as e:
        err = e
        stmts = []
    desc = '%s lock=%s nowait=%s skip_locked=%s session=%s' % (shape, lock, nowait, skip, case.get('session', {}))
    if lock and nowait and skip:
        if err is None:
            return 'PostgreSQL: %s: nowait and skip_locked together were accepted (documented as mutually exclusive)' % desc
        return None
    if err is not None:
        return 'PostgreSQL: %s raised TypeError: %s' % (desc, err)
    selects = [(sql, ac) for (kind, sql, ac) in stmts if kind == 'execute' and sql.lstrip().upper().startswith('SELECT')]
    if len(selects) != 1:
        return 'PostgreSQL: %s issued %d SELECT statements, expected one: %r' % (desc, len(selects), selects)
    sql, autocommit = selects[0]
    flat = ' '.join(sql.split())
    want = 'FOR UPDATE' + (' NOWAIT' if nowait else '') + (' SKIP LOCKED' if skip else '')
    if lock:
        if not flat.endswith(want) or flat.count('FOR UPDATE') != 1 or (not nowait and 'NOWAIT' in flat) or (not skip and 'SKIP LOCKED' in flat):
            return 'PostgreSQL: %s: the locking query must end with %r exactly once, got: %s' % (desc, want, flat)
        if autocommit:
            return 'PostgreSQL: %s: the FOR UPDATE query was sent while the connection was still in autocommit mode ' \
                   '(the row lock would be released at once): %s' % (desc, flat)
    else:
        if 'FOR UPDATE' in flat or 'NOWAIT' in flat or 'SKIP LOCKED' in flat:
            return 'PostgreSQL: %s: a non-locking query contains a locking clause: %s' % (desc, flat)
    if case.get('session', {}).get('serializable'):
        before = [s for (kind, s, ac) in stmts[:stmts.index(('execute', sql, autocommit))] if kind == 'execute']
        if not any('ISOLATION LEVEL SERIALIZABLE' in s.upper() for s in before) or autocommit:
            return 'PostgreSQL: %s: a serializable session must switch autocommit off and SET TRANSACTION ISOLATION LEVEL ' \
                   'SERIALIZABLE before its first query; log: %r' % (desc, stmts)
    return None
