"""Reference model for C18 (db_session commits exactly when its body succeeds).

Pure Python, imports nothing from Pony.  `predict(case, yield_outcomes)` interprets the same case script the
harness (vlib/c18_harness.py) runs against Pony and returns what the property statement + the documented
db_session contract require to be observable:

  executions   how many times the body runs
  exc          which exception leaves the session (class name, and which raised instance)
  finals       the acceptable final committed table contents (one, or two where the documentation is silent)
  probes       the committed table contents at every probe point (attempt start, after an explicit commit(), after a
               nested session exits, before a generator suspends, at the end), as seen by an independent connection
  views        the table contents the body must see at the start of every attempt

Sources of the rules (docs.ponyorm.org api_reference `db_session`, transactions.html; pony/orm/tests/test_db_session.py):
  R1  body finishes normally -> changes are committed at the outermost exit.
  R2  exception that is not allowed -> rollback of everything not committed explicitly, the exception propagates.
  R3  `allowed_exceptions` (list of classes or callable(exc)->bool): the exception propagates but the changes are
      committed (decorator / context manager; the Bottle plugin allows HTTPResponse that is not HTTPError).
      For generator functions the docs say nothing about allowed_exceptions: commit or rollback are both accepted.
  R4  `retry=n` (decorator only): an exception matching `retry_exceptions` (default [TransactionError]; list or
      callable) rolls the transaction back and re-runs the body, at most n extra times; after the last attempt the
      exception propagates.  A retryable exception that is also allowed: rollback+retry while attempts remain
      (documented restart); on the last attempt both outcomes are accepted.
  R5  nested db_sessions (any options) are ignored: nothing is committed at their exit, `retry` of a nested
      decorator is ignored, an exception passing through them is judged by the outermost session only.
  R6  explicit commit() makes everything pending durable at once; explicit rollback() discards everything pending.
  R7  a @db_session generator must have committed before it suspends: with pending changes Pony raises
      TransactionError into the consumer and rolls back.  With only reads since the last commit the result depends
      on whether a transaction is open (immediate mode): both outcomes are accepted (TransactionError = rejected).
  R8  db_session(retry=n) as context manager, the same class in both exception lists, retry/serializable on a
      generator function: TypeError, body never runs.
  R10 a callable allowed_exceptions that itself raises while classifying the body's exception has not allowed it:
      nothing of that attempt is committed (now or by any later session); either the predicate's error or the body's
      exception propagates.  (Combined with a retryable exception the documentation gives no order: inconclusive.)
  R11 closing a suspended @db_session generator (close(), or dropping the last reference) is not a normal finish:
      whatever the body does while handling GeneratorExit (catching it, writing, returning quietly) is rolled back
      unless it commits explicitly; a body that yields again gets Python's RuntimeError('generator ignored
      GeneratorExit'); exceptions escape from close() but are swallowed when the generator is merely dropped.
  R12 a later db_session in the same thread commits exactly its own changes, never leftovers of an earlier session.
  R13 a nested db_session that Pony REFUSES to start -- `with db_session(serializable=True)` inside a session whose
      outermost db_session is not serializable, `ddl=True` (context manager or decorated function) inside a non-ddl
      session -- raises TransactionError to the enclosing body before its own body runs (test_db_session_ddl_1c,
      test_db_session_ddl_2) and is otherwise ignored like any nested session (R5): the enclosing session still
      commits / rolls back at ITS exit, and later sessions of the thread are unaffected (R12).
  R9  flushing an INSERT whose primary key already exists in the table raises TransactionIntegrityError (a
      TransactionError) at the next flush()/commit()/session exit (test_retry_10).
"""

FIXED_ROW = [100, 0]     # always present, never touched by set/del; target of the 'dup' step

PARENTS = {
    'BaseException': [],
    'Exception': ['BaseException'],
    'GeneratorExit': ['BaseException'],
    'TypeError': ['Exception'],
    'A': ['Exception'], 'B': ['A'], 'C': ['B'], 'D': ['Exception'], 'E': ['D', 'A'],
    'K': ['BaseException'],
    'OrmError': ['Exception'], 'TE': ['OrmError'], 'TIE': ['TE'],
    'HR': ['Exception'], 'HE': ['HR'], 'HR2': ['HR'], 'HE2': ['HE'],
    'RuntimeError': ['Exception'],
    'PE': ['Exception'],          # the error a badly written allowed_exceptions predicate raises (R10)
}
BODY_CLASSES = ['A', 'B', 'C', 'D', 'E', 'K', 'TE', 'TIE']           # what a body may raise
BOTTLE_CLASSES = ['HR', 'HE', 'HR2', 'HE2']
LIST_CLASSES = ['A', 'B', 'C', 'D', 'E', 'K', 'TE', 'TIE', 'Exception']   # what exception lists may name
CATCH_CLASSES = ['A', 'B', 'C', 'D', 'E', 'TE']                     # what the body itself may catch around a nested session
YIELD_CATCH_CLASSES = CATCH_CLASSES + ['GeneratorExit', 'BaseException']   # ... and around a yield


class Inconclusive(Exception):
    """the script leaves the modelled fragment"""


class MExc(Exception):
    def __init__(self, cls, origin, index=None):
        Exception.__init__(self, cls)
        self.cls = cls
        self.origin = origin        # 'body' | 'thrown' | 'pony'
        self.index = index          # index into the list of instances created by the script


class MSuspendError(Exception):
    """R7: generator suspended with an open transaction"""


class MClose(Exception):
    """GeneratorExit travelling through the body"""


def is_sub(a, b):
    if a == b:
        return True
    return any(is_sub(p, b) for p in PARENTS[a])


def matches(classes, cls):
    return any(is_sub(cls, c) for c in classes)


def rows_of(d):
    return sorted([k, v] for k, v in d.items())


class State(object):
    def __init__(self, initial):
        self.committed = dict((k, v) for k, v in initial)
        self.committed[FIXED_ROW[0]] = FIXED_ROW[1]
        self.probes = []
        self.views = []
        self.trace = []
        self.n_instances = 0
        self.n_yields = 0
        self.points = []
        self.max_depth = 1
        self.begin()

    def begin(self):
        self.view = dict(self.committed)
        self.dirty = False        # something pending that a commit would make durable
        self.touched = False      # the session has talked to the database since the last commit/rollback
        self.flushed = False
        self.had_commit = False
        self.poison = False       # a doomed INSERT is pending (R9)
        self.deleted = set()

    def probe(self, label):
        self.probes.append([label, rows_of(self.committed)])

    def do_commit(self):
        if self.poison:
            self.do_rollback()           # commit() rolls back when its flush fails
            raise MExc('TIE', 'pony')
        self.committed = dict(self.view)
        self.dirty = self.touched = self.flushed = self.poison = False
        self.deleted = set()
        self.had_commit = True

    def do_rollback(self):
        self.view = dict(self.committed)
        self.dirty = self.touched = self.flushed = self.poison = False
        self.deleted = set()

    def point(self):
        if self.dirty:
            return 'after_flush' if self.flushed else 'after_write'
        if self.had_commit:
            return 'after_commit'
        return 'before_write'


def run_block(m, block, depth, yield_outcomes, in_generator):
    """python generator: yields at every 'yield' step that really suspends; the driver sends the action"""
    m.max_depth = max(m.max_depth, depth)
    for step in block:
        op = step[0]
        m.trace.append([depth] + [s for s in step if not isinstance(s, (list, dict))])
        if op == 'set':
            if m.poison or step[1] in m.deleted:
                raise Inconclusive('set after dup / after delete of the same key in one transaction')
            m.view[step[1]] = step[2]
            m.dirty = m.touched = True
            m.flushed = False
        elif op == 'del':
            if m.poison:
                raise Inconclusive('del after dup')
            m.touched = True
            if step[1] in m.view:
                del m.view[step[1]]
                m.deleted.add(step[1])
                m.dirty = True
                m.flushed = False
        elif op == 'flush':
            if m.poison:
                raise MExc('TIE', 'pony')
            if m.dirty:
                m.flushed = True
        elif op == 'commit':
            m.do_commit()
            m.probe('after_commit')
        elif op == 'rollback':
            m.do_rollback()
        elif op == 'dup':
            if m.poison:
                raise Inconclusive('dup twice')
            m.poison = m.dirty = m.touched = True
            m.flushed = False
        elif op == 'raise':
            if m.poison:
                raise Inconclusive('raise while a doomed insert is pending')
            m.points.append(m.point())
            idx = m.n_instances
            m.n_instances += 1
            raise MExc(step[1], 'body', idx)
        elif op == 'yield':
            if not in_generator or depth != 1:
                raise Inconclusive('yield outside the top level of a generator session')
            m.probe('yield')
            if m.closing:
                raise MExc('RuntimeError', 'python')       # R11: generator ignored GeneratorExit
            k = m.n_yields
            m.n_yields += 1
            if m.view != m.committed:
                raise MSuspendError()
            if m.touched or m.dirty:
                # only reads, or changes that cancel out (created+deleted, value set back): whether Pony still has
                # a transaction open / a modified cache depends on flush timing.
                # R7, second half: either outcome accepted; follow what happened
                if k < len(yield_outcomes) and yield_outcomes[k] == 'TE':
                    m.ambiguous_te = True
                    raise MSuspendError()
            action = yield k
            if action[0] == 'throw':
                idx = m.n_instances
                m.n_instances += 1
                if not matches(step[1], action[1]):
                    m.points.append('thrown')
                    raise MExc(action[1], 'thrown', idx)
            elif action[0] in ('close', 'abandon'):
                m.closing = action[0]
                if not matches(step[1], 'GeneratorExit'):
                    raise MClose()
                m.close_caught = True                      # R11: the body goes on while being closed
        elif op == 'nest':
            spec, inner, catch = step[1], step[2], step[3]
            if spec['form'] == 'context' and spec['opts'].get('retry'):
                raise Inconclusive('nested context manager with retry')
            if spec['opts'].get('ddl') and spec['opts'].get('retry'):
                raise Inconclusive('ddl together with retry (TypeError at construction)')
            refused = bool(spec['opts'].get('ddl')) or bool(
                spec['form'] == 'context' and spec['opts'].get('serializable') and not m.outer_serializable)
            try:
                if refused:
                    m.refused += 1
                    raise MExc('TE', 'pony')                      # R13: the nested body never runs
                for k in run_block(m, inner, depth + 1, yield_outcomes, in_generator):
                    raise Inconclusive('yield inside a nested session')
            except MExc as e:
                if not matches(catch, e.cls):
                    raise
                if e.cls == 'TIE' and e.origin == 'pony':
                    raise Inconclusive('the body swallows a failed flush and goes on with a broken cache')
                m.caught += 1
                if refused:
                    m.refused_caught += 1
            m.probe('after_nest')          # R5: the nested exit committed nothing
        else:
            raise Inconclusive('unknown step %r' % (op,))


def _drain(gen):
    for k in gen:
        raise Inconclusive('yield in a plain function body')


def predict(case, yield_outcomes=()):
    form = case['form']
    opts = dict(case.get('opts') or {})
    m = State(case.get('initial') or [])
    m.caught = 0
    m.ambiguous_te = False
    m.closing = None
    m.close_caught = False
    m.refused = 0
    m.refused_caught = 0
    m.outer_serializable = bool(opts.get('serializable')) and form in ('decorator', 'context')
    exp = {'reject': None, 'executions': 0, 'exc': None, 'finals': None, 'outcome': None,
           'retried': 0, 'decisive': False}

    def finish(outcome, exc=None, finals=None, alternatives=()):
        exp['outcome'] = outcome
        exp['exc'] = None if exc is None else {'cls': exc.cls, 'origin': exc.origin, 'index': exc.index}
        exp['finals'] = finals if finals is not None else [rows_of(m.committed)]
        exp['exc_alternatives'] = alternatives
        exp['closing'] = m.closing
        exp['refused'] = m.refused
        exp['refused_caught'] = m.refused_caught
        exp['close_caught'] = m.close_caught
        # R12: the following session's own writes, applied to each acceptable state
        after = case.get('after') or []
        exp['finals_after'] = []
        for f in exp['finals']:
            d = dict((k, v) for k, v in f)
            for step in after:
                if step[0] != 'set':
                    raise Inconclusive('only set steps in the following session')
                d[step[1]] = step[2]
            exp['finals_after'].append(rows_of(d))
        exp.update(probes=m.probes, views=m.views, trace=m.trace, points=m.points, depth=m.max_depth,
                   caught=m.caught, ambiguous_te=m.ambiguous_te)
        return exp

    retry = opts.get('retry', 0) if form in ('decorator', 'context', 'generator') else 0
    allowed = opts.get('allowed') if form in ('decorator', 'context', 'generator') else None
    retry_exc = opts.get('retry_exc') if form in ('decorator', 'context', 'generator') else None

    # R8: refusals
    if form in ('decorator', 'context', 'generator'):
        a_list = allowed['classes'] if allowed and allowed['kind'] == 'list' else ([] if allowed is None else None)
        r_list = retry_exc['classes'] if retry_exc and retry_exc['kind'] == 'list' else (['TE'] if retry_exc is None else None)
        if a_list is not None and r_list is not None and any(c in r_list for c in a_list):
            exp['reject'] = 'TypeError'
            return finish('rejected')
        if form == 'context' and retry:
            exp['reject'] = 'TypeError'
            return finish('rejected')
        if form == 'generator' and (retry or opts.get('serializable')):
            exp['reject'] = 'TypeError'
            return finish('rejected')

    def predicate_raises(cls):
        return bool(form in ('decorator', 'context') and allowed is not None and allowed['kind'] == 'callable'
                    and matches(allowed.get('raises_for') or [], cls))

    def is_allowed(cls):
        if form == 'bottle':
            return is_sub(cls, 'HR') and not is_sub(cls, 'HE')
        if form == 'flask' or allowed is None:
            return False
        if allowed['kind'] == 'callable' and matches(allowed.get('raises_for') or [], cls):
            return False                   # R10 (generator sessions never ask the predicate)
        return matches(allowed['classes'], cls)

    def is_retryable(cls):
        if form not in ('decorator', 'bottle'):
            return False
        if form == 'bottle' or retry_exc is None:
            return is_sub(cls, 'TE')
        return matches(retry_exc['classes'], cls)

    attempts = case['attempts']

    if form == 'generator':
        exp['executions'] = 1
        m.begin()
        m.probe('start')
        m.views.append(rows_of(m.view))
        m.touched = True                       # the harness reads the table through Pony at the start
        gen = run_block(m, attempts[0], 1, list(yield_outcomes), True)
        drive = list(case.get('drive') or [])
        pos = 0
        try:
            try:
                k = next(gen)
                while True:
                    action = drive[pos] if pos < len(drive) else ['next']
                    pos += 1
                    if pos > 64:
                        raise Inconclusive('driver loop')
                    k = gen.send(action)
            except StopIteration:
                pass
            exp['drive_used'] = pos
            if m.closing:
                # R11: the body caught GeneratorExit and returned quietly -- not a normal finish
                exp['decisive'] = m.view != m.committed and not m.poison
                m.do_rollback()
                return finish('closed_after_catch')
            # body finished: R1
            decisive = m.view != m.committed
            m.do_commit()
            exp['decisive'] = decisive
            return finish('commit')
        except MSuspendError:
            exp['drive_used'] = pos
            exp['decisive'] = m.view != m.committed
            m.do_rollback()
            return finish('suspend_error', MExc('TE', 'pony'))
        except MClose:
            exp['drive_used'] = pos
            m.do_rollback()
            return finish('closed')
        except MExc as e:
            exp['drive_used'] = pos
            if m.closing == 'abandon':
                # R11: nobody is there to receive the exception
                exp['decisive'] = m.view != m.committed and not m.poison
                if is_allowed(e.cls) and exp['decisive']:
                    both = [rows_of(m.committed), rows_of(m.view)]
                    m.do_rollback()
                    return finish('abandoned_error_allowed_either', None, both)
                m.do_rollback()
                return finish('abandoned_error')
            if (e.cls == 'TIE' and e.origin == 'pony') or not is_allowed(e.cls) or m.view == m.committed:
                exp['decisive'] = m.view != m.committed and not m.poison
                m.do_rollback()
                return finish('rollback', e)
            # R3 for generators: undocumented, both accepted
            exp['decisive'] = True
            both = [rows_of(m.committed), rows_of(m.view)]
            m.do_rollback()
            return finish('allowed_either', e, both)

    n_attempts = retry + 1 if form == 'decorator' else 1
    last = None
    for i in range(n_attempts):
        exp['executions'] += 1
        m.begin()
        m.probe('start')
        m.views.append(rows_of(m.view))
        block = attempts[min(i, len(attempts) - 1)]
        try:
            _drain(run_block(m, block, 1, (), False))
            decisive = m.view != m.committed
            m.do_commit()                 # R1 (raises TIE when a doomed insert is pending, R9)
            exp['decisive'] = exp['decisive'] or decisive
            return finish('commit' if i == 0 else 'commit_after_retry')
        except MExc as e:
            last = e
            pending = m.view != m.committed and not m.poison
            if predicate_raises(e.cls):
                if is_retryable(e.cls):
                    raise Inconclusive('predicate raises for a retryable exception')
                exp['decisive'] = exp['decisive'] or pending        # R10
                exp['pending_at_exit'] = rows_of(m.view)
                m.do_rollback()
                return finish('predicate_error', MExc('PE', 'predicate'), alternatives=[
                    {'cls': e.cls, 'origin': e.origin, 'index': e.index}])
            if is_retryable(e.cls):
                exp['decisive'] = exp['decisive'] or pending or n_attempts > 1
                if i + 1 < n_attempts:
                    exp['retried'] += 1
                    exp.setdefault('retried_classes', []).append(e.cls)
                    m.do_rollback()
                    continue
                if is_allowed(e.cls) and pending:
                    both = [rows_of(m.committed), rows_of(m.view)]     # R4, last sentence
                    m.do_rollback()
                    return finish('retry_exhausted_allowed_either', e, both)
                m.do_rollback()
                return finish('retry_exhausted' if n_attempts > 1 else 'rollback', e)
            if is_allowed(e.cls):
                if m.poison:
                    raise Inconclusive('allowed exception while a doomed insert is pending')
                exp['decisive'] = exp['decisive'] or pending
                m.committed = dict(m.view)          # R3
                return finish('allowed_commit', e)
            exp['decisive'] = exp['decisive'] or pending
            exp['pending_at_exit'] = rows_of(m.view)   # what a (wrong) commit at this point would make durable
            m.do_rollback()                          # R2
            return finish('rollback', e)
    raise AssertionError('unreachable')
