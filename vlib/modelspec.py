"""B1: entity-diagram specs as pure data + materialisation into real Pony classes.

spec = {'entities': [ent...], 'rels': [rel...]}
ent  = {'name': 'E0', 'pk': 'auto'|'int'|'str'|'comp', 'scalars': [sc...], 'ckeys': [[name, name], ...]}
sc   = {'name': 'a0', 'type': 'int'|'str', 'req': bool, 'unique': bool}
rel  = {'kind': 'o2m'|'o2o'|'m2m'|'sym_m2m'|'sym_o2o',
        'a': ent name, 'a_attr': name, 'b': ent name, 'b_attr': name,
        # o2m: a is the 'one' side holding Set(b) in a_attr; b_attr is the to-one attribute on b
        'b_req': bool,            # o2m: b_attr Required?; o2o: b_attr Required (a_attr always Optional)
        'cascade': None|True|False}   # o2m: cascade_delete option on the Set; o2o: on a_attr
Everything is built by construction to satisfy the restrictions EntityMeta/_link_reverse_attrs_ enforce.
"""
from hypothesis import strategies as st

INTS = [0, 1, 2, 3, -1]
STRS = ['a', 'b', 'c', 'ab']


@st.composite
def specs(draw, max_entities=3, allow_comp_pk=True, allow_inheritance=False, rel_kinds=None, min_rels=1, max_rels=4,
          keys=True):
    n = draw(st.integers(1, max_entities))
    entities = []
    for i in range(n):
        pk = draw(st.sampled_from(['auto', 'auto', 'int', 'str'] + (['comp'] if allow_comp_pk else []))) if keys else 'auto'
        nsc = draw(st.integers(0, 3))
        scalars = []
        for j in range(nsc):
            typ = draw(st.sampled_from(['int', 'str']))
            req = draw(st.booleans())
            unique = draw(st.sampled_from([False, False, True])) if keys else False
            scalars.append({'name': 'a%d' % j, 'type': typ, 'req': req, 'unique': unique})
        ckeys = []
        if keys and len(scalars) >= 2 and draw(st.integers(0, 3)) == 0:
            ckeys.append([scalars[0]['name'], scalars[1]['name']])
        entities.append({'name': 'E%d' % i, 'pk': pk, 'scalars': scalars, 'ckeys': ckeys})
    kinds = rel_kinds or ['o2m', 'o2m', 'o2o', 'm2m', 'sym_m2m', 'sym_o2o']
    nrel = draw(st.integers(min_rels, max_rels))
    rels = []
    for k in range(nrel):
        kind = draw(st.sampled_from(kinds))
        a = draw(st.integers(0, n - 1))
        b = a if kind.startswith('sym') else draw(st.integers(0, n - 1))
        rel = {'kind': kind, 'a': 'E%d' % a, 'b': 'E%d' % b, 'a_attr': 'r%da' % k, 'b_attr': 'r%db' % k,
               'b_req': False, 'cascade': None}
        if kind.startswith('sym'):
            rel['b_attr'] = rel['a_attr']
        if kind == 'o2m':
            # a self-referencing required parent can never be created: keep self o2m optional
            rel['b_req'] = False if a == b else draw(st.booleans())
            if rel['b_req']:
                # cascade_delete=False with a Required reverse is legal: deleting the owner of a non-empty set is refused
                rel['cascade'] = draw(st.sampled_from([None, None, True, False]))
            else:
                rel['cascade'] = draw(st.sampled_from([None, None, True, False]))
        elif kind == 'o2o':
            rel['b_req'] = False if a == b else draw(st.booleans())
            rel['cascade'] = draw(st.sampled_from([None, None, True, False]))
        rels.append(rel)
    return {'entities': entities, 'rels': rels}


@st.composite
def hub_specs(draw, keys=True):
    """Entity diagrams built for refused and half-done cascades: every relationship starts at the hub entity E0, at least
    one of them makes E0.delete() cascade or unlink and at least one refuses the delete (Required reverse with
    cascade_delete=False).  Pony processes collections first and to-one attributes second, both in declaration order, so
    the position of the refusing relationship decides how much work is done before the refusal."""
    n_child = draw(st.integers(1, 2))
    entities = []
    for i in range(1 + n_child):
        pk = draw(st.sampled_from(['auto', 'int', 'int', 'str', 'comp'])) if keys else 'auto'
        nsc = draw(st.integers(1, 2))
        scalars = []
        for j in range(nsc):
            scalars.append({'name': 'a%d' % j, 'type': draw(st.sampled_from(['int', 'str'])), 'req': draw(st.booleans()),
                            'unique': draw(st.sampled_from([False, False, True])) if keys else False})
        entities.append({'name': 'E%d' % i, 'pk': pk, 'scalars': scalars, 'ckeys': []})
    working = [('o2m', True, None), ('o2m', False, True), ('o2m', False, None), ('o2o', False, True), ('o2o', True, True),
               ('m2m', False, None), ('o2o', False, None)]
    refusing = [('o2m', True, False), ('o2o', True, False)]
    n_work = draw(st.integers(1, 3))
    rl = [draw(st.sampled_from(working)) for _ in range(n_work)]
    if draw(st.integers(0, 4)):     # one program in five has no refusing relationship: the cascade runs to the end
        rl.insert(draw(st.integers(0, len(rl))), draw(st.sampled_from(refusing)))
    if draw(st.integers(0, 3)) == 0:
        rl.insert(draw(st.integers(0, len(rl))), draw(st.sampled_from(refusing)))
    rels = []
    for k, (kind, b_req, cascade) in enumerate(rl):
        b = draw(st.integers(1, n_child))
        rels.append({'kind': kind, 'a': 'E0', 'b': 'E%d' % b, 'a_attr': 'r%da' % k, 'b_attr': 'r%db' % k,
                     'b_req': b_req, 'cascade': cascade})
    return {'entities': entities, 'rels': rels}


def ends(spec):
    """normalised relationship ends: list of dicts
    {'rel': k, 'ent': name, 'attr': name, 'many': bool, 'req': bool, 'cascade': bool, 'other': index of the other end}"""
    out = []
    for k, r in enumerate(spec['rels']):
        kind = r['kind']
        if kind == 'o2m':
            ea = {'rel': k, 'ent': r['a'], 'attr': r['a_attr'], 'many': True, 'req': False,
                  'cascade': (r['b_req'] if r['cascade'] is None else r['cascade']), 'target': r['b'], 'side': 'a'}
            eb = {'rel': k, 'ent': r['b'], 'attr': r['b_attr'], 'many': False, 'req': r['b_req'], 'cascade': False,
                  'target': r['a'], 'side': 'b'}
        elif kind == 'o2o':
            ea = {'rel': k, 'ent': r['a'], 'attr': r['a_attr'], 'many': False, 'req': False,
                  'cascade': bool(r['cascade']), 'target': r['b'], 'side': 'a'}
            eb = {'rel': k, 'ent': r['b'], 'attr': r['b_attr'], 'many': False, 'req': r['b_req'], 'cascade': False,
                  'target': r['a'], 'side': 'b'}
        elif kind == 'm2m':
            ea = {'rel': k, 'ent': r['a'], 'attr': r['a_attr'], 'many': True, 'req': False, 'cascade': False,
                  'target': r['b'], 'side': 'a'}
            eb = {'rel': k, 'ent': r['b'], 'attr': r['b_attr'], 'many': True, 'req': False, 'cascade': False,
                  'target': r['a'], 'side': 'b'}
        elif kind == 'sym_m2m':
            ea = {'rel': k, 'ent': r['a'], 'attr': r['a_attr'], 'many': True, 'req': False, 'cascade': False,
                  'target': r['a'], 'side': 's'}
            eb = None
        elif kind == 'sym_o2o':
            ea = {'rel': k, 'ent': r['a'], 'attr': r['a_attr'], 'many': False, 'req': False, 'cascade': False,
                  'target': r['a'], 'side': 's'}
            eb = None
        else:
            raise ValueError(kind)
        out.append((ea, eb))
    return out


def build_classes(spec, db, **kw):
    """Pony's PrimaryKey(a, b) / composite_key(a, b) inspect the *class body frame*, so classes are created by
    exec of generated source text (also keeps attribute declaration order = spec order)."""
    lines = ['from pony.orm import Required, Optional, Set, PrimaryKey, composite_key']
    lazy_all = kw.get('lazy_all', False)
    nplus1 = kw.get('nplus1', None)
    hooks = kw.get('hooks')   # optional {entity name: source text of extra class body lines}
    rel_lines = {e['name']: [] for e in spec['entities']}
    for r in spec['rels']:
        kind = r['kind']
        skw = '' if nplus1 is None else ', nplus1_threshold=%r' % nplus1
        if kind == 'o2m':
            ckw = '' if r['cascade'] is None else ', cascade_delete=%r' % r['cascade']
            rel_lines[r['a']].append('%s = Set(%r, reverse=%r%s%s)' % (r['a_attr'], r['b'], r['b_attr'], ckw, skw))
            rel_lines[r['b']].append('%s = %s(%r, reverse=%r)' % (r['b_attr'], 'Required' if r['b_req'] else 'Optional',
                                                                   r['a'], r['a_attr']))
        elif kind == 'o2o':
            ckw = '' if r['cascade'] is None else ', cascade_delete=%r' % r['cascade']
            rel_lines[r['a']].append('%s = Optional(%r, reverse=%r%s)' % (r['a_attr'], r['b'], r['b_attr'], ckw))
            rel_lines[r['b']].append('%s = %s(%r, reverse=%r)' % (r['b_attr'], 'Required' if r['b_req'] else 'Optional',
                                                                   r['a'], r['a_attr']))
        elif kind == 'm2m':
            rel_lines[r['a']].append('%s = Set(%r, reverse=%r%s)' % (r['a_attr'], r['b'], r['b_attr'], skw))
            rel_lines[r['b']].append('%s = Set(%r, reverse=%r%s)' % (r['b_attr'], r['a'], r['a_attr'], skw))
        elif kind == 'sym_m2m':
            rel_lines[r['a']].append('%s = Set(%r, reverse=%r%s)' % (r['a_attr'], r['a'], r['a_attr'], skw))
        elif kind == 'sym_o2o':
            rel_lines[r['a']].append('%s = Optional(%r, reverse=%r)' % (r['a_attr'], r['a'], r['a_attr']))
    for e in spec['entities']:
        lines.append('class %s(db.Entity):' % e['name'])
        body = []
        if e['pk'] == 'int':
            body.append('id = PrimaryKey(int)')
        elif e['pk'] == 'str':
            body.append('id = PrimaryKey(str)')
        elif e['pk'] == 'comp':
            body.append('k1 = Required(int)')
            body.append('k2 = Required(str)')
            body.append('PrimaryKey(k1, k2)')
        for sc in e['scalars']:
            opts = []
            if sc['unique']:
                opts.append('unique=True')
            if lazy_all:
                opts.append('lazy=True')
            if not sc['req'] and sc['type'] == 'str' and sc['unique']:
                opts.append('nullable=True')
            body.append('%s = %s(%s%s)' % (sc['name'], 'Required' if sc['req'] else 'Optional', sc['type'],
                                          ''.join(', ' + o for o in opts)))
        for ck in e['ckeys']:
            body.append('composite_key(%s)' % ', '.join(ck))
        body.extend(rel_lines[e['name']])
        if hooks and hooks.get(e['name']):
            body.extend(hooks[e['name']].splitlines())
        if not body:
            body.append('pass')
        lines.extend('    ' + b for b in body)
    src = '\n'.join(lines) + '\n'
    ns = {'db': db}
    ns.update(kw.get('namespace') or {})
    exec(compile(src, '<spec>', 'exec'), ns)
    return {e['name']: ns[e['name']] for e in spec['entities']}, src
