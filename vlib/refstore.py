"""B3: reference store -- an in-memory model of a diagram's objects and links, written from Pony's documented
semantics (both ends of a relationship are one fact; cascade / set-null / refuse rules; unique keys).
It shares no code with Pony and never looks at Pony's internals.
"""
import copy
from vlib import modelspec


class ModelError(Exception):
    def __init__(self, kind, msg=''):
        Exception.__init__(self, '%s: %s' % (kind, msg))
        self.kind = kind


class Unknown(Exception):
    """the model declines to predict (e.g. re-entrant cascade); the op is skipped on both sides"""


class State(object):
    __slots__ = ('objs', 'links', 'next_h')

    def __init__(self):
        self.objs = {}      # handle -> {'ent': name, 'pk': value or None, 'vals': {scalar: value}}
        self.links = {}     # rel index -> set of (ha, hb); symmetric relations store both (x, y) and (y, x)
        self.next_h = 1

    def clone(self):
        s = State()
        s.objs = {h: {'ent': o['ent'], 'pk': o['pk'], 'vals': dict(o['vals'])} for h, o in self.objs.items()}
        s.links = {k: set(v) for k, v in self.links.items()}
        s.next_h = self.next_h
        return s


class Model(object):
    def __init__(self, spec):
        self.spec = spec
        self.ents = {e['name']: e for e in spec['entities']}
        self.ends = modelspec.ends(spec)          # list of (ea, eb)
        self.by_attr = {}                         # (ent, attr) -> (end, reverse end)
        for ea, eb in self.ends:
            if eb is None:
                self.by_attr[(ea['ent'], ea['attr'])] = (ea, ea)
            else:
                self.by_attr[(ea['ent'], ea['attr'])] = (ea, eb)
                self.by_attr[(eb['ent'], eb['attr'])] = (eb, ea)
        # scalars that take part in a unique or composite key: an Optional(str) there is nullable (default None, not '')
        self.keyed = set()
        for e in spec['entities']:
            for sc in e['scalars']:
                if sc['unique'] or any(sc['name'] in ck for ck in e['ckeys']):
                    self.keyed.add((e['name'], sc['name']))
        self.cur = State()
        for k in range(len(spec['rels'])):
            self.cur.links[k] = set()
        self.committed = self.cur.clone()
        # values ever held for a key during the current transaction (for the "tainted" rule)
        self.tainted = False

    # ---------------------------------------------------------------- structure helpers
    def attr_order(self, ent):
        """attribute names in declaration order as build_classes emits them: pk, scalars, then rel attrs in rel order"""
        out = []
        for r_ends in self.ends:
            for end in r_ends:
                if end is not None and end['ent'] == ent and end['attr'] not in out:
                    out.append(end['attr'])
        return out

    def rel_ends_of(self, ent):
        """list of (end, reverse) for every relationship attribute of the entity, in declaration order"""
        return [self.by_attr[(ent, a)] for a in self.attr_order(ent)]

    def partners(self, st, h, end):
        k = end['rel']
        if end['side'] == 'a':
            return set(b for (a, b) in st.links[k] if a == h)
        if end['side'] == 'b':
            return set(a for (a, b) in st.links[k] if b == h)
        return set(b for (a, b) in st.links[k] if a == h)

    def partner(self, st, h, end):
        p = self.partners(st, h, end)
        assert len(p) <= 1, (h, end, p)
        return next(iter(p)) if p else None

    def _link(self, st, x, end, y):
        k = end['rel']
        if end['side'] == 'a':
            st.links[k].add((x, y))
        elif end['side'] == 'b':
            st.links[k].add((y, x))
        else:
            st.links[k].add((x, y))
            st.links[k].add((y, x))

    def _unlink(self, st, x, end, y):
        k = end['rel']
        if end['side'] == 'a':
            st.links[k].discard((x, y))
        elif end['side'] == 'b':
            st.links[k].discard((y, x))
        else:
            st.links[k].discard((x, y))
            st.links[k].discard((y, x))

    def live(self, st, ent=None):
        return sorted(h for h, o in st.objs.items() if ent is None or o['ent'] == ent)

    # ---------------------------------------------------------------- keys
    def key_values(self, st, h):
        """[(keyname, value tuple)] for pk, unique scalars, composite keys (None parts => no key)"""
        o = st.objs[h]
        e = self.ents[o['ent']]
        out = []
        if o['pk'] is not None:
            out.append(('pk', o['pk']))
        for sc in e['scalars']:
            if sc['unique']:
                v = o['vals'].get(sc['name'])
                if v is not None:
                    out.append((sc['name'], v))
        for ck in e['ckeys']:
            vals = tuple(o['vals'].get(n) for n in ck)
            if None not in vals:
                out.append(('ck:' + ','.join(ck), vals))
        return out

    def conflicts(self, st, h):
        """other live handles of the same entity sharing a key with h"""
        o = st.objs[h]
        mine = self.key_values(st, h)
        out = []
        for h2, o2 in st.objs.items():
            if h2 == h or o2['ent'] != o['ent']:
                continue
            theirs = self.key_values(st, h2)
            for kv in mine:
                if kv in theirs:
                    out.append((h2, kv))
        return out

    def any_duplicates(self, st):
        for h in st.objs:
            if self.conflicts(st, h):
                return True
        return False

    def key_seen_elsewhere(self, h, st):
        """taint rule: does h now hold a key value that another row holds in the committed state (a transient
        conflict the database may see at flush time depending on statement order)?"""
        o = st.objs[h]
        mine = self.key_values(st, h)
        for h2, o2 in self.committed.objs.items():
            if h2 == h or o2['ent'] != o['ent']:
                continue
            theirs = self.key_values(self.committed, h2)
            for kv in mine:
                if kv in theirs:
                    return True
        return False

    # ---------------------------------------------------------------- primitive semantics (mirror the docs)
    def _assign_one(self, st, x, end, rev, new, deleting):
        """user-level x.attr = new for a to-one end"""
        if new is None and end['req']:
            raise ModelError('required', '%s.%s' % (end['ent'], end['attr']))
        old = self.partner(st, x, end)
        if old == new:
            return
        if not rev['many']:
            if old is not None:
                if end['cascade']:
                    self._delete(st, old, deleting)
                elif rev['req']:
                    raise ModelError('constraint', 'cannot unlink %s: reverse is required' % old)
                else:
                    self._unlink(st, x, end, old)
            if new is not None:
                if new not in st.objs:
                    raise Unknown('new partner deleted by cascade')
                prev = self.partner(st, new, rev)
                if prev is not None and prev != x:
                    if end['req']:
                        raise ModelError('constraint', 'cannot unlink previous owner %s' % prev)
                    self._unlink(st, prev, end, new)
                self._link(st, x, end, new)
        else:
            if old is not None:
                self._unlink(st, x, end, old)
            if new is not None:
                self._link(st, x, end, new)

    def _coll_add(self, st, x, end, rev, items):
        items = set(items) - self.partners(st, x, end)
        for it in sorted(items):
            if rev['many']:
                self._link(st, x, end, it)
            else:
                old = self.partner(st, it, rev)
                if old is not None:
                    self._unlink(st, it, rev, old)
                self._link(st, x, end, it)

    def _coll_remove(self, st, x, end, rev, items, deleting):
        items = set(items) & self.partners(st, x, end)
        for it in sorted(items):
            if rev['many']:
                self._unlink(st, x, end, it)
            elif end['cascade']:
                self._delete(st, it, deleting)
            elif rev['req']:
                raise ModelError('required', 'cannot set required %s.%s to None' % (rev['ent'], rev['attr']))
            else:
                self._unlink(st, x, end, it)

    def _coll_set(self, st, x, end, rev, items, deleting):
        cur = self.partners(st, x, end)
        items = set(items)
        self._coll_remove(st, x, end, rev, cur - items, deleting)
        self._coll_add(st, x, end, rev, items - cur)

    def _delete(self, st, x, deleting):
        if x not in st.objs:
            return
        if x in deleting:
            raise Unknown('re-entrant cascade')
        deleting = deleting | {x}
        ent = st.objs[x]['ent']
        pairs = self.rel_ends_of(ent)
        for end, rev in pairs:
            if not end['many']:
                continue
            cur = self.partners(st, x, end)
            if not cur:
                continue
            if end['cascade']:
                for it in sorted(cur):
                    self._delete(st, it, deleting)
            elif not rev['req']:
                self._coll_set(st, x, end, rev, (), deleting)
            else:
                raise ModelError('constraint', 'non-empty set %s.%s without cascade' % (ent, end['attr']))
        for end, rev in pairs:
            if end['many']:
                continue
            val = self.partner(st, x, end)
            if val is None:
                continue
            if not rev['many']:
                if end['cascade']:
                    self._delete(st, val, deleting)
                elif not rev['req']:
                    self._unlink(st, x, end, val)
                else:
                    raise ModelError('constraint', 'associated %s.%s is required on the other side' % (ent, end['attr']))
            else:
                self._unlink(st, x, end, val)
        # whatever is left (links pointing to x) disappears with the object
        for k in st.links:
            st.links[k] = set(p for p in st.links[k] if x not in p)
        st.objs.pop(x, None)

    # ---------------------------------------------------------------- user-level operations on a scratch copy
    def try_op(self, fn):
        """run fn(state copy); returns ('ok', new_state) | ('error', ModelError) | ('unknown', msg)"""
        st = self.cur.clone()
        try:
            fn(st)
        except ModelError as e:
            return 'error', e
        except Unknown as e:
            return 'unknown', str(e)
        return 'ok', st

    def op_create(self, ent, pk, scalars, refs, colls):
        """refs: {attr: handle or None}, colls: {attr: [handles]}; returns (status, state_or_err, new_handle)"""
        holder = {}

        def fn(st):
            e = self.ents[ent]
            for sc in e['scalars']:
                v = scalars.get(sc['name'])
                if sc['req'] and (v is None or v == ''):
                    raise ModelError('required', sc['name'])
            h = st.next_h
            st.next_h += 1
            vals = {}
            for sc in e['scalars']:
                v = scalars.get(sc['name'])
                if v is None and not sc['req'] and sc['type'] == 'str' and (ent, sc['name']) not in self.keyed:
                    v = ''          # documented default of a non-nullable Optional(str)
                vals[sc['name']] = v
            st.objs[h] = {'ent': ent, 'pk': pk, 'vals': vals}
            holder['h'] = h
            if self.conflicts(st, h):
                raise ModelError('conflict', 'key already present in session')
            for end, rev in self.rel_ends_of(ent):
                if end['many']:
                    continue
                tgt = refs.get(end['attr'])
                if tgt is None:
                    if end['req']:
                        raise ModelError('required', end['attr'])
                    continue
                self._assign_one(st, h, end, rev, tgt, frozenset())
            for end, rev in self.rel_ends_of(ent):
                if not end['many']:
                    continue
                items = colls.get(end['attr']) or ()
                if items:
                    self._coll_set(st, h, end, rev, items, frozenset())
            if h not in st.objs:
                raise Unknown('created object deleted by its own cascade')
        status, res = self.try_op(fn)
        return status, res, holder.get('h')

    def op_set_scalar(self, h, name, value):
        def fn(st):
            o = st.objs[h]
            sc = [s for s in self.ents[o['ent']]['scalars'] if s['name'] == name][0]
            if sc['req'] and (value is None or value == ''):
                raise ModelError('required', name)
            if value is None and not sc['req'] and sc['type'] == 'str' and (o['ent'], name) not in self.keyed:
                raise ModelError('notnull', name)
            o['vals'][name] = value
            if self.conflicts(st, h):
                raise ModelError('conflict', name)
        return self.try_op(fn)

    def op_set_multi(self, h, scalars, refs, colls):
        def fn(st):
            o = st.objs[h]
            for name, value in scalars.items():
                sc = [s for s in self.ents[o['ent']]['scalars'] if s['name'] == name][0]
                if sc['req'] and (value is None or value == ''):
                    raise ModelError('required', name)
                if value is None and not sc['req'] and sc['type'] == 'str' and (o['ent'], name) not in self.keyed:
                    raise ModelError('notnull', name)
                o['vals'][name] = value
            if self.conflicts(st, h):
                raise ModelError('conflict', 'set()')
            for end, rev in self.rel_ends_of(o['ent']):
                if end['many'] or end['attr'] not in refs:
                    continue
                self._assign_one(st, h, end, rev, refs[end['attr']], frozenset())
                if h not in st.objs:
                    raise Unknown('object deleted by its own cascade')
            for end, rev in self.rel_ends_of(o['ent']):
                if not end['many'] or end['attr'] not in colls:
                    continue
                self._coll_set(st, h, end, rev, colls[end['attr']], frozenset())
                if h not in st.objs:
                    raise Unknown('object deleted by its own cascade')
        return self.try_op(fn)

    def op_set_ref(self, h, attr, target):
        def fn(st):
            end, rev = self.by_attr[(st.objs[h]['ent'], attr)]
            self._assign_one(st, h, end, rev, target, frozenset())
            if h not in st.objs:
                raise Unknown('object deleted by its own cascade')
        return self.try_op(fn)

    def op_coll(self, h, attr, how, items):
        def fn(st):
            end, rev = self.by_attr[(st.objs[h]['ent'], attr)]
            if how == 'add':
                self._coll_add(st, h, end, rev, items)
            elif how == 'remove':
                self._coll_remove(st, h, end, rev, items, frozenset())
            elif how == 'set':
                self._coll_set(st, h, end, rev, items, frozenset())
            else:
                raise ValueError(how)
            if h not in st.objs:
                raise Unknown('owner deleted by its own cascade')
        return self.try_op(fn)

    def op_delete(self, h):
        def fn(st):
            self._delete(st, h, frozenset())
        return self.try_op(fn)

    # ---------------------------------------------------------------- transaction boundaries
    def commit(self):
        self.committed = self.cur.clone()
        self.tainted = False

    def rollback(self):
        self.cur = self.committed.clone()
        self.tainted = False

    # ---------------------------------------------------------------- pending-creation cycle detection (C16)
    def creation_cycle(self, created, fk_ends):
        """created: set of handles not yet inserted; fk_ends: set of (ent, attr) whose column lives in that entity's table.
        True if the created objects reference each other cyclically through columns."""
        st = self.cur
        graph = {}
        for h in created:
            if h not in st.objs:
                continue
            ent = st.objs[h]['ent']
            outs = set()
            for end, rev in self.rel_ends_of(ent):
                if end['many'] or (ent, end['attr']) not in fk_ends:
                    continue
                p = self.partner(st, h, end)
                if p is not None and p in created:
                    outs.add(p)
            graph[h] = outs
        color = {}

        def visit(n):
            color[n] = 1
            for m in graph.get(n, ()):
                if color.get(m) == 1:
                    return True
                if m not in color and visit(m):
                    return True
            color[n] = 2
            return False
        return any(visit(n) for n in graph if n not in color)
