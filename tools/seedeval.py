#!/venv/bin/python
"""Evaluate one seeded change produced by an independent sub-agent.

usage: tools/seedeval.py <ID> <variant> [--src /tmp/seed_<ID>/SEED/<variant>] [--checks C09,C10] [--tier quick]

1. takes patch.diff / demo.py / meta.json from the source directory,
2. confirms in a fresh scratch worktree of /repo HEAD: the patch applies; the pinned suite still passes (tools/baseline.sh);
   the demo exits 0 without and 1 with the patch,
3. runs the named checks (default: the property's own check) against the patched worktree (VERIF_REPO) and records
   exit codes and the first violation line,
4. stores everything under /verif/seeded/<ID>-<variant>/ (patch.diff, demo.py, meta.json with the results),
5. removes the worktree.
"""
import os, sys, json, subprocess, shutil, argparse, time

HOME = os.path.dirname(os.path.dirname(os.path.abspath(__file__)))


def sh(cmd, **kw):
    p = subprocess.run(cmd, shell=True, stdout=subprocess.PIPE, stderr=subprocess.STDOUT, **kw)
    return p.returncode, p.stdout.decode(errors='replace')


def main():
    ap = argparse.ArgumentParser()
    ap.add_argument('id')
    ap.add_argument('variant')
    ap.add_argument('--src')
    ap.add_argument('--checks')
    ap.add_argument('--tier', default='quick')
    ap.add_argument('--seeds', default='1')
    args = ap.parse_args()
    pid = args.id.upper()
    src = args.src or '/tmp/seed_%s/SEED/%s' % (pid, args.variant)
    dst = os.path.join(HOME, 'seeded', '%s-%s' % (pid, args.variant))
    os.makedirs(dst, exist_ok=True)
    for fn in ('patch.diff', 'demo.py', 'meta.json'):
        if os.path.abspath(src) != os.path.abspath(dst):
            shutil.copyfile(os.path.join(src, fn), os.path.join(dst, fn))
    try:
        meta = json.load(open(os.path.join(dst, 'meta.json')))
    except Exception:
        meta = {}
    wt = '/tmp/wt_seedeval_%s_%s' % (pid, args.variant)
    sh('git -C /repo worktree remove --force %s' % wt)
    rc, out = sh('git -C /repo worktree add --detach %s HEAD' % wt)
    result = {'evaluated_at_repo_head': sh('git -C /repo rev-parse --short HEAD')[1].strip()}
    try:
        rc0, out0 = sh('PYTHONPATH=%s /venv/bin/python %s/demo.py' % (wt, dst), cwd=wt)
        result['demo_unpatched_exit'] = rc0
        rc, out = sh('git -C %s apply %s/patch.diff' % (wt, dst))
        result['patch_applies'] = rc == 0
        if rc != 0:
            result['apply_error'] = out[-500:]
        else:
            rc1, out1 = sh('PYTHONPATH=%s /venv/bin/python %s/demo.py' % (wt, dst), cwd=wt)
            result['demo_patched_exit'] = rc1
            result['demo_patched_output'] = out1[-600:]
            rcb, outb = sh('%s/tools/baseline.sh %s' % (HOME, wt))
            result['suite_still_passes'] = rcb == 0
            result['suite_output'] = outb.strip()[-300:]
            if args.checks:
                checks = args.checks.split(',')
            else:   # the property's own check plus every check recorded as catching this change before
                prev = (meta.get('verification') or {}).get('caught_by') or []
                checks = [pid] + [c for c in prev if c != pid]
            result['checks'] = {}
            for c in checks:
                for seed in args.seeds.split(','):
                    t0 = time.time()
                    rcc, outc = sh('VERIF_REPO=%s VERIF_SEED=%s %s/check %s --tier %s --no-evidence' % (wt, seed, HOME, c, args.tier))
                    viol = [l for l in outc.splitlines() if l.startswith('violation')]
                    result['checks']['%s/%s/seed%s' % (c, args.tier, seed)] = {
                        'exit': rcc, 'first_violation': viol[0][:400] if viol else None, 'wall_s': round(time.time() - t0, 1)}
                    if rcc == 1:
                        break
            result['caught_by'] = sorted(set(k.split('/')[0] for k, v in result['checks'].items() if v['exit'] == 1))
    finally:
        sh('git -C /repo worktree remove --force %s' % wt)
        # replay files written by a failing check against the mutant are not kept
    meta['verification'] = result
    json.dump(meta, open(os.path.join(dst, 'meta.json'), 'w'), indent=1)
    ok = result.get('patch_applies') and result.get('suite_still_passes') and result.get('demo_unpatched_exit') == 0 \
        and result.get('demo_patched_exit') not in (0, None)
    print('%s-%s valid_seed=%s caught_by=%s checks=%s' % (pid, args.variant, bool(ok), result.get('caught_by'),
          {k: v['exit'] for k, v in result.get('checks', {}).items()}))


if __name__ == '__main__':
    main()
