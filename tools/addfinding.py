#!/venv/bin/python
"""tools/addfinding.py <id> <property> <status fixed|open> <witness replay file (moved to replays/known/<id>.json)> <fix_commit|exclusion> <title> [why_not_fixed]"""
import json, sys, os, shutil
HOME = os.path.dirname(os.path.dirname(os.path.abspath(__file__)))
fid, prop, status, wit, extra, title = sys.argv[1:7]
why = sys.argv[7] if len(sys.argv) > 7 else None
dst = 'replays/known/%s.json' % fid
if os.path.abspath(wit) != os.path.abspath(os.path.join(HOME, dst)):
    shutil.move(wit, os.path.join(HOME, dst))
p = os.path.join(HOME, 'known_findings.json')
k = json.load(open(p))
assert not any(e['id'] == fid for e in k['findings']), 'duplicate id'
e = {'id': fid, 'property': prop, 'status': status, 'title': title, 'witness': dst}
if status == 'fixed':
    e['fix_commit'] = extra
else:
    e['exclusion'] = extra
    e['why_not_fixed'] = why
k['findings'].append(e)
json.dump(k, open(p, 'w'), indent=1)
print('added', fid)
