#!/bin/bash
# runs every claimed check at several seeds (quick tier) and prints the ones that are not quiet
cd "$(dirname "$0")/.."
SEEDS="${SEEDS:-2 3 4 5 6}"
IDS=$(/venv/bin/python -c "import json;print(' '.join(json.load(open('tools/manifest_meta.json'))['claimed']))")
for id in $IDS; do
  for s in $SEEDS; do
    out=$(VERIF_SEED=$s ./check $id --tier ${TIER:-quick} --no-evidence 2>&1); rc=$?
    if [ $rc -ne 0 ]; then echo "NOT-QUIET $id seed=$s rc=$rc"; echo "$out" | grep -v "^KNOWN" | tail -5 | cut -c1-600; fi
  done
  echo "done $id"
done
echo SWEEP-FINISHED
