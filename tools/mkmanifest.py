#!/venv/bin/python
"""Regenerates /verif/MANIFEST.json from the check modules' metadata (MANIFEST dict in each checks/cNN.py)
and tools/manifest_meta.json (not_applicable list, notes, hooks)."""
import os, sys, json, importlib
HOME = os.path.dirname(os.path.dirname(os.path.abspath(__file__)))
sys.path.insert(0, HOME)
meta = json.load(open(os.path.join(HOME, 'tools', 'manifest_meta.json')))
checks = []
for fn in sorted(os.listdir(os.path.join(HOME, 'checks'))):
    if not (fn.startswith('c') and fn.endswith('.py')):
        continue
    pid = fn[:-3].upper()
    if pid not in meta.get('claimed', []):
        continue
    src = open(os.path.join(HOME, 'checks', fn)).read()
    ns = {}
    # metadata only: evaluate the MANIFEST literal without importing pony
    start = src.index('MANIFEST = ')
    import ast
    tree = ast.parse(src)
    for node in tree.body:
        if isinstance(node, ast.Assign) and getattr(node.targets[0], 'id', None) in ('MANIFEST', 'LEVEL'):
            ns[node.targets[0].id] = ast.literal_eval(node.value)
    m = ns['MANIFEST']
    checks.append({
        'property_id': pid,
        'quick_cmd': './check %s --tier quick' % pid,
        'thorough_cmd': './check %s --tier thorough' % pid,
        'evidence_file': 'evidence/%s.json' % pid,
        'replay_cmd_template': './check %s --replay {path}' % pid,
        'engine': 'hypothesis+runner',
        'level_claimed': {'category': ns['LEVEL'], 'text': m['text'], 'design_ref': m.get('design_ref', 'DESIGN.md §4 ' + pid)},
        'level_note': m['note'],
        'technique': m['technique'],
    })
claimed = {c['property_id'] for c in checks}
na = [x for x in meta['not_applicable'] if x['property_id'] not in claimed]
manifest = {
    'version': 1,
    'setup_cmd': meta['setup_cmd'],
    'hooks': meta['hooks'],
    'engines': meta['engines'],
    'checks': checks,
    'notes': meta['notes'],
    'not_applicable': na,
}
json.dump(manifest, open(os.path.join(HOME, 'MANIFEST.json'), 'w'), indent=1)
print('claimed', len(checks), 'not_applicable', len(na))
