#!/venv/bin/python
"""tools/markfixed.py <finding-id> <commit>: an open finding was repaired in /repo"""
import json, sys, os
HOME = os.path.dirname(os.path.dirname(os.path.abspath(__file__)))
p = os.path.join(HOME, 'known_findings.json')
k = json.load(open(p))
for e in k['findings']:
    if e['id'] == sys.argv[1]:
        e['status'] = 'fixed'
        e['fix_commit'] = sys.argv[2]
        e.pop('exclusion', None)
        e.pop('why_not_fixed', None)
        break
else:
    raise SystemExit('no such finding')
json.dump(k, open(p, 'w'), indent=1)
print('fixed', sys.argv[1], sys.argv[2])
