#!/venv/bin/python
"""Regenerates the generated part of DESIGN.md (between the GENERATED STATUS markers): per-property status from
MANIFEST.json + evidence/, the seeded-change matrix from seeded/*/meta.json and the findings count from
known_findings.json.  Run after tools/mkmanifest.py."""
import os, json, glob, collections
HOME = os.path.dirname(os.path.dirname(os.path.abspath(__file__)))
BEGIN, END = '<!-- BEGIN GENERATED STATUS -->', '<!-- END GENERATED STATUS -->'

props = {}
for l in open(os.path.join(HOME, 'properties.jsonl')):
    d = json.loads(l)
    props[d['id']] = d
man = json.load(open(os.path.join(HOME, 'MANIFEST.json')))
known = json.load(open(os.path.join(HOME, 'known_findings.json')))['findings']
out = []
out.append('### 9.1 Checks as built\n')
out.append('Numbers are from the committed evidence files (last quick run on /repo, `VERIF_SEED=1`).\n')
out.append('| id | level | deciding technique | cases | non-trivial | wall s | fixed / open findings |')
out.append('|---|---|---|---|---|---|---|')
fx = collections.Counter((e['property'], e['status']) for e in known)
for c in man['checks']:
    pid = c['property_id']
    ev = {}
    try:
        ev = json.load(open(os.path.join(HOME, c['evidence_file'])))
    except Exception:
        pass
    cov = ev.get('coverage', {})
    out.append('| %s | %s | %s | %s | %s | %s | %d / %d |' % (
        pid, c['level_claimed']['category'], c['technique'], cov.get('evaluations', '?'), cov.get('distinct_nontrivial', '?'),
        ev.get('wall_s', '?'), fx[(pid, 'fixed')], fx[(pid, 'open')]))
out.append('')
if man.get('not_applicable'):
    out.append('Not applicable: ' + ', '.join('%s (%s)' % (x['property_id'], x['reason']) for x in man['not_applicable']) + '\n')
else:
    out.append('No property is listed as not applicable.\n')

out.append('### 9.2 Seeded changes (made by independent sub-agents that saw only the property text) and the checks that catch them\n')
out.append('`valid` = the patch applies to the current /repo HEAD, the pinned suite still passes with it and the '
           'demonstration exits 0 without and 1 with the patch (re-verified by `tools/seedeval.py`). '
           '`caught by` lists the checks (quick tier) that exit 1 with a VIOLATION line against the patched tree; '
           'the first seed value at which it happened is in `seeded/<id>/meta.json`.\n')
out.append('| seeded change | what it breaks | valid | caught by |')
out.append('|---|---|---|---|')
for d in sorted(glob.glob(os.path.join(HOME, 'seeded', '*'))):
    try:
        m = json.load(open(os.path.join(d, 'meta.json')))
    except Exception:
        continue
    v = m.get('verification', {})
    valid = bool(v.get('patch_applies') and v.get('suite_still_passes') and v.get('demo_unpatched_exit') == 0
                 and v.get('demo_patched_exit') not in (0, None))
    summ = (m.get('summary') or '').replace('|', '/').replace('\n', ' ')
    if len(summ) > 170:
        summ = summ[:167] + '...'
    cb = v.get('caught_by')
    note = m.get('lead_note', '')
    out.append('| %s | %s | %s | %s |' % (os.path.basename(d), summ, 'yes' if valid else 'no (%s)' % (
        'patch no longer applies' if not v.get('patch_applies') else 'see meta.json'),
        (', '.join(cb) if cb else ('-' if valid else 'n/a')) + ((' — ' + note) if note else '')))
out.append('')
text = '\n'.join(out)
p = os.path.join(HOME, 'DESIGN.md')
s = open(p).read()
if BEGIN in s and END in s:
    s = s[:s.index(BEGIN) + len(BEGIN)] + '\n' + text + '\n' + s[s.index(END):]
else:
    s = s.rstrip('\n') + '\n\n' + BEGIN + '\n' + text + '\n' + END + '\n'
open(p, 'w').write(s)
print('status written: %d checks, %d seeded' % (len(man['checks']), len(glob.glob(os.path.join(HOME, 'seeded', '*')))))
