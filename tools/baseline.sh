#!/bin/bash
# Runs the repository's pinned suite (guard off) and compares against BASELINE.json stable_pass.
REPO="${1:-/repo}"
OUT=$(mktemp /tmp/junit.XXXXXX.xml)
cd "$REPO" && env -u PONYORM_PONY_VERIF /venv/bin/python -m pytest -ra -q -p no:cacheprovider --timeout=900 --continue-on-collection-errors --junitxml=$OUT >/dev/null 2>&1
/venv/bin/python - "$OUT" <<'PY'
import sys, json, xml.etree.ElementTree as ET
base = json.load(open('/root/.vp/BASELINE.json'))
stable = set(base['stable_pass'])
passed = set()
for tc in ET.parse(sys.argv[1]).getroot().iter('testcase'):
    ok = not any(ch.tag in ('failure', 'error', 'skipped') for ch in tc)
    if ok:
        passed.add('%s::%s' % (tc.get('classname'), tc.get('name')))
missing = sorted(stable - passed)
print('stable_pass=%d passed_now=%d missing=%d' % (len(stable), len(passed & stable), len(missing)))
for m in missing[:20]:
    print('  MISSING', m)
sys.exit(1 if missing else 0)
PY
rc=$?
rm -f $OUT
exit $rc
