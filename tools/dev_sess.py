"""dev aid: run the session interpreter with all invariants on and print the first failures grouped by property"""
import sys, os, json, collections, traceback
sys.path.insert(0, os.path.dirname(os.path.dirname(os.path.abspath(__file__))))
from vlib import sessmachine, modelspec
from hypothesis import given, settings, seed, HealthCheck, Phase
import hypothesis
props = set(sys.argv[1].split(',')) if len(sys.argv) > 1 else {'C09','C10','C11','C12','C13','C14','C15','C16'}
n = int(sys.argv[2]) if len(sys.argv) > 2 else 300
sd = int(sys.argv[3]) if len(sys.argv) > 3 else 1
found = collections.OrderedDict()
tot = collections.Counter()
@seed(sd)
@settings(max_examples=n, deadline=None, database=None, suppress_health_check=list(HealthCheck), phases=(Phase.generate,))
@given(sessmachine.programs())
def t(program):
    stats = {}
    try:
        res = sessmachine.run_program(program, props, stats)
    except Exception as e:
        tb = traceback.format_exc()
        key = ('HARNESS', tb.strip().splitlines()[-1][:100], tb.strip().splitlines()[-3][:100])
        if key not in found:
            found[key] = (program, tb)
        res = None
    tot.update(stats)
    if res is not None:
        key = (res[0], res[1].split('\n')[0][:90])
        if key not in found:
            found[key] = (program, res[1])
t()
for key, (program, msg) in list(found.items())[:int(os.environ.get('SHOW', 8))]:
    print('=' * 100); print(key); print(msg[:1500])
    if os.environ.get('PROG'): print(json.dumps(program))
print('distinct failures:', len(found))
print({k: v for k, v in sorted(tot.items()) if not k.startswith('op:') and not k.startswith('read:')})
