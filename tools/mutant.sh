#!/bin/bash
# usage: tools/mutant.sh <name> <file relative to repo> <python expr old> <python expr new> <check id> [more check ids]
# creates a scratch worktree of /repo HEAD, replaces old->new (must occur exactly once unless COUNT given), runs the checks, removes the worktree
NAME=$1; FILE=$2; OLD=$3; NEW=$4; shift 4
WT=/tmp/wt_mut_$NAME
git -C /repo worktree add --detach $WT HEAD -q || exit 2
/venv/bin/python - "$WT/$FILE" "$OLD" "$NEW" <<'PY'
import sys
p, old, new = sys.argv[1:4]
s = open(p).read()
n = s.count(old)
if n != 1:
    print('MUTANT ERROR: pattern occurs %d times' % n); sys.exit(3)
open(p, 'w').write(s.replace(old, new))
PY
rc=$?
if [ $rc -eq 0 ]; then
  for c in "$@"; do
    out=$(VERIF_REPO=$WT /verif/check $c --no-evidence 2>&1); rc=$?
    echo "mutant=$NAME check=$c exit=$rc $(echo "$out" | grep -m1 '^violation' | cut -c1-200)"
  done
fi
git -C /repo worktree remove --force $WT
