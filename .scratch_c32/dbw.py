import sys, json, os
sys.path.insert(0, '/verif')
from checks import c32
from vlib import c32_model as M
case = json.load(open('/verif/replays/known/C32-close-without-connection.json'))['case']
case['strict'] = False
case['ops'] = [['new', ['oflush', ['P', 9]]]]
os.makedirs('/verif/.scratch_c32/w', exist_ok=True)
env = M.build_env(case['diagram'], '/verif/.scratch_c32/w/dbw.sqlite'); M.load_data(env, case['data'])
msgs = []
print(c32.run_case(env, case, None, lambda m, i: msgs.append(m) or True))
print(msgs)
M.close_env(env)
