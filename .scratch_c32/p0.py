import time, os, sys
from pony.orm import *
d = '/verif/.scratch_c32'
t=time.time()
for i in range(50):
    db = Database()
    class P(db.Entity):
        title = Required(str)
        kids = Set('C')
    class C(db.Entity):
        name = Required(str)
        parent = Required(P)
    fn = os.path.join(d, 'x%d.sqlite' % i)
    db.bind('sqlite', fn, create_db=True)
    db.generate_mapping(create_tables=True)
    with db_session:
        p = P(title='a'); C(name='x', parent=p)
    with db_session:
        p = P[1]
    db.disconnect()
    os.remove(fn)
print((time.time()-t)/50)
