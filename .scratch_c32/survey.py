import os, sys, json, collections, time
sys.path.insert(0, '/verif')
from checks import c32
from vlib import c32_model as M
work = '/verif/.scratch_c32/w'
os.makedirs(work, exist_ok=True)
tier = sys.argv[1] if len(sys.argv) > 1 else 'quick'
only = sys.argv[2] if len(sys.argv) > 2 else None
pool = c32.EnvPool(work)
groups = collections.OrderedDict(); known = collections.Counter()
nops = 0
t0 = time.time()
scen = c32.grid_scenarios(tier)
print('scenarios', len(scen))
for k, (status, base) in enumerate(scen):
    if only and status != only: continue
    env = pool.get(base['diagram'], base['data'])
    model = M.Model(base['diagram'], base['data'])
    for act in base['prep']:
        assert model.apply(act), (status, act)
    ops = c32.order_ops(c32.all_ops(model, base['diagram']), 1, k)
    case = dict(base, ops=ops)
    def on_op(i, op, out, msg):
        global nops
        nops += 1
    def on_fail(msg, info):
        f = info['failing']
        op = f.get('op')
        kind = c32.op_kind(op) if op else f.get('stage')
        out = f.get('outcome') or {}
        fc = dict(case, failing=f)
        for name, fn in c32.EXCLUSIONS.items():
            if fn(fc, c32.full_message(fc, msg)):
                known[name] += 1
                return True
        sig = (kind, out.get('exc') or 'ok', msg.split('; expected')[-1][:60], f.get('stage'))
        groups.setdefault(sig, []).append((status, base['end'], base['strict'], base['form'], msg[:400]))
        return True
    try:
        c32.run_case(env, case, on_op, on_fail)
    except M.Rejected as r:
        print('REJECTED', status, base['end'], r)
pool.close()
print('known', dict(known)); print('ops', nops, 'time', time.time() - t0)
for sig, items in groups.items():
    print('-----', sig, len(items))
    seen = set()
    for it in items:
        key = (it[0], it[1], it[2])
        if key in seen: continue
        seen.add(key)
        if len(seen) <= 2:
            print('   ', it)
