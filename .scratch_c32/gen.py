import sys, json
sys.path.insert(0, '/verif')
from checks import c32
from hypothesis import given, settings, seed, HealthCheck, Phase
import collections
n = [0]; stats = collections.Counter()
@seed(5)
@settings(max_examples=300, database=None, deadline=None, suppress_health_check=list(HealthCheck), phases=(Phase.generate,))
@given(case=c32.case_strategy('quick'))
def t(case):
    n[0] += 1
    stats['preplen%d' % min(len(case['prep']), 9)] += 1
    for a in case['prep']: stats['act:' + a[0]] += 1
    stats['ops%d' % min(len(case['ops']),12)] += 1
    if n[0] <= 6:
        print(json.dumps({k: v for k, v in case.items() if k != 'data'})[:900])
t()
for k in sorted(stats): print(k, stats[k])
