import os, sys, traceback, json
sys.path.insert(0, '/verif')
from checks import c32
from vlib import c32_model as M
d = M.norm_diagram(c32.GRID_DIAGRAMS_QUICK[int(sys.argv[1])])
data = c32.grid_data(d)
prep = dict(c32.presets(d))['created_in_loaded_collection']
case = {'diagram': d, 'data': data, 'prep': prep, 'end': 'commit', 'form': 'with', 'strict': False, 'ops': []}
os.makedirs('/verif/.scratch_c32/w', exist_ok=True)
env = M.build_env(d, '/verif/.scratch_c32/w/p3.sqlite'); M.load_data(env, data)
p = M.prepare(env, case)
print(prep)
t = p.objs[M.hk(['T', c32.pkof(d, 'T', 1)])]
try:
    print(list(t.cs))
except Exception:
    traceback.print_exc()
M.close_env(env)
