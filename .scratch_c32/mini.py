import os, sys, json
sys.path.insert(0, '/verif')
from checks import c32
from vlib import c32_model as M
work = '/verif/.scratch_c32/w'
os.makedirs(work, exist_ok=True)
status_want, end_want, strict_want, di = sys.argv[1], sys.argv[2], sys.argv[3] == '1', int(sys.argv[4])
skip = sys.argv[5].split(',') if len(sys.argv) > 5 else []
scen = c32.grid_scenarios('quick')
d = M.norm_diagram(c32.GRID_DIAGRAMS_QUICK[di])
for k, (status, base) in enumerate(scen):
    if status == status_want and base['end'] == end_want and base['strict'] == strict_want and base['diagram'] == d and base['form'] == 'with':
        break
env = M.build_env(base['diagram'], work + '/m.sqlite'); M.load_data(env, base['data'])
model = M.Model(base['diagram'], base['data'])
for act in base['prep']: assert model.apply(act)
ops = c32.order_ops(c32.all_ops(model, base['diagram']), 1, k)
ops = [o for o in ops if c32.op_kind(o) not in skip]
case = dict(base, ops=ops)
msg, info = c32.run_case(env, case)
print(msg)
if msg:
    c2, m2, i2 = c32.minimise_ops(env, case, info)
    print('MIN ops', json.dumps(c2['ops']))
    print(m2)
    print(json.dumps({k: v for k, v in c2.items() if k != 'data'}))
M.close_env(env)
