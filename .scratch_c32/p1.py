import os, sys, traceback
from pony.orm import *
from pony.orm import core
fn = '/verif/.scratch_c32/p1.sqlite'
if os.path.exists(fn): os.remove(fn)
db = Database()
class P(db.Entity):
    id = PrimaryKey(int)
    title = Required(str)
    blob = Optional(str, lazy=True)
    kids = Set('C')
class C(db.Entity):
    id = PrimaryKey(int)
    name = Required(str)
    nick = Optional(str)
    parent = Required(P)
    tags = Set('T')
class T(db.Entity):
    id = PrimaryKey(int)
    label = Required(str)
    cs = Set(C)
db.bind('sqlite', fn, create_db=True)
db.generate_mapping(create_tables=True)
with db_session:
    p1 = P(id=1, title='p1', blob='B'); p2 = P(id=2, title='p2')
    t1 = T(id=1, label='t1'); t2 = T(id=2, label='t2')
    c1 = C(id=1, name='c1', parent=p1, tags=[t1]); c2 = C(id=2, name='c2', parent=p1, tags=[t1, t2]); c3 = C(id=3, name='c3', parent=p2)

def attempt(label, f):
    try:
        r = f()
        print('%-40s -> %r' % (label, r))
    except BaseException as e:
        print('%-40s !! %s: %s' % (label, type(e).__name__, e))

for strict in (False, True):
    print('=== strict', strict)
    with db_session(strict=strict):
        p = P[1]; c = C[1]; kids = list(p.kids); t = T[1]
    G = {'C': C, 'P': P, 'T': T}
    def q1():
        with db_session:
            return [x.id for x in select('x for x in C if x.parent == p', G, {'p': p})]
    attempt('select x.parent == p', q1)
    def q2():
        with db_session:
            return [x.id for x in C.select(parent=p)]
    attempt('C.select(parent=p)', q2)
    def q3():
        with db_session:
            return C.get(id=1, parent=p).id
    attempt('C.get(parent=p)', q3)
    def q4():
        with db_session:
            return [x.id for x in select('x for x in C if t in x.tags', G, {'t': t})]
    attempt('t in x.tags', q4)
    def q5():
        with db_session:
            return [x.id for x in select('x for x in P if x == p', G, {'p': p})]
    attempt('x == p', q5)
    def q6():
        with db_session:
            return [x.id for x in select('x for x in C if x.parent.title == p.title', G, {'p': p})]
    attempt('p.title in query', q6)
    def q7():
        with db_session:
            return [x.id for x in select('x for x in C if x in p.kids', G, {'p': p})]
    attempt('x in p.kids', q7)
    def q8():
        with db_session:
            cc = C[3]; cc.parent = p
    attempt('live.parent = leftover', q8)
    def q9():
        with db_session:
            pp = P[2]; pp.kids.add(c)
    attempt('live.kids.add(leftover)', q9)
    def q10():
        with db_session:
            C(id=9, name='n', parent=p)
    attempt('C(parent=leftover)', q10)
    attempt('p.kids.select() outside', lambda: p.kids.select()[:])
    def q11():
        with db_session:
            return [x.id for x in p.kids.select()]
    attempt('p.kids.select() in new', q11)
    attempt('select outside', lambda: select('x for x in C', G, {})[:])
    attempt('commit outside', lambda: commit())
    attempt('flush outside', lambda: flush())
    attempt('p.kids.is_empty()', lambda: p.kids.is_empty())
    attempt('c.tags.is_empty()', lambda: c.tags.is_empty())
    def q12():
        with db_session:
            return c.tags.is_empty()
    attempt('c.tags.is_empty() in new', q12)
    attempt('c.tags.count()', lambda: c.tags.count())
    attempt('c.tags len', lambda: len(c.tags))
    attempt('c.tags bool', lambda: bool(c.tags))
    attempt('p.id', lambda: p.id)
    attempt('p.get_pk', lambda: p.get_pk())
    attempt('p.flush', lambda: p.flush())
    attempt('p.to_dict', lambda: p.to_dict())
    attempt('p.to_dict wc', lambda: p.to_dict(with_collections=True))
    attempt('c.to_dict wc', lambda: c.to_dict(with_collections=True))

print('=== created rolled back, strict')
for strict in (False, True):
  for doflush in (False, True):
    try:
        with db_session(strict=strict):
            n = P(id=7, title='new')
            m = P[1]; m.title = 'changed'
            if doflush: flush()
            1/0
    except ZeroDivisionError: pass
    print('strict', strict, 'flush', doflush)
    attempt('n.title', lambda: n.title)
    attempt('m.title', lambda: m.title)
    attempt('n.flush', lambda: n.flush())
    attempt('m.flush', lambda: m.flush())
    attempt('n.title=', lambda: setattr(n, 'title', 'z'))
    attempt('n.delete', lambda: n.delete())
    def q13():
        with db_session:
            n.flush()
    attempt('n.flush in new', q13)
for strict in (False, True):
    with db_session(strict=strict):
        n = P(id=8, title='new')
        rollback()
    print('only-created rollback strict', strict)
    attempt('n.title', lambda: n.title)
    attempt('n._session_cache_', lambda: n._session_cache_)
    attempt('n.flush', lambda: n.flush())
