import sys, os, json
sys.path.insert(0, '/verif')
os.environ['VERIF_EXTRA_KNOWN'] = '/verif/replays/known/C32-proposed-known.json'
from vlib import runner
from checks import c32
seed = int(sys.argv[1]); n = int(sys.argv[2])
ctx = runner.Ctx(c32, 'thorough', seed, 0, 1, 3000)
ctx.scale = lambda q, t: n
try:
    c32.run_random(ctx)
finally:
    import shutil; shutil.rmtree(ctx.workdir, ignore_errors=True)
r = ctx.result()
print(json.dumps(r['extra'])[:3000]); print('evals', r['evaluations'], 'rejected', r['rejected'], 'excluded', r['excluded'], 'wall', r['wall_s'])
cl = r['classes']
print({k: v for k, v in cl.items() if not k.startswith('op:')})
if r['violation']:
    print(r['violation']['message'])
    print(json.dumps(r['violation']['case']))
