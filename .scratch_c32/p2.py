import os, sys, traceback
from pony.orm import *
fn = '/verif/.scratch_c32/p2.sqlite'
if os.path.exists(fn): os.remove(fn)
db = Database()
class C(db.Entity):
    id = PrimaryKey(int)
    name = Required(str)
    tags = Set('T')
class T(db.Entity):
    id = PrimaryKey(int)
    label = Required(str)
    cs = Set(C)
db.bind('sqlite', fn, create_db=True)
db.generate_mapping(create_tables=True)
with db_session:
    t1 = T(id=1, label='t1'); c1 = C(id=1, name='c1', tags=[t1])
with db_session:
    t = T[1]
    print(list(t.cs))
    c9 = C(id=9, name='c9', tags=[t])
try:
    print(list(t.cs))
except Exception:
    traceback.print_exc()
print(t._vals_[T.cs].is_fully_loaded, t._vals_)
