import sys, os, json, collections, time
sys.path.insert(0, '/verif')
os.environ.setdefault('VERIF_HOME', '/verif')
from hypothesis import given, settings, HealthCheck, seed, Phase
from vlib import c26_gen
import checks.c26 as C
N = int(sys.argv[1]); SEED = int(sys.argv[2])
work = '/verif/.work/c26dev_%d' % os.getpid(); os.makedirs(work, exist_ok=True)
stats = collections.Counter(); tags = collections.Counter(); first = {}; rej = collections.Counter()
t0 = time.time()
@seed(SEED)
@settings(max_examples=N, database=None, deadline=None, suppress_health_check=list(HealthCheck), phases=(Phase.generate,))
@given(case=c26_gen.cases())
def t(case):
    stats['n'] += 1
    for f in C.features(case):
        if 'm2m' in f or 'taken' in f: stats[f] += 1
    try:
        status, vio, info = C.run_case(case, work)
    except C.Rejected as r:
        stats['rejected'] += 1
        rej['%s|%s' % (type(r.exc).__name__, str(r.exc)[:50])] += 1
        return
    stats[status] += 1
    for tag, msg in vio:
        full = C._msg(tag, msg, case['dialect'])
        ex = [n for n, fn in C.EXCLUSIONS.items() if fn(case, full)]
        if ex:
            stats['excluded:' + ex[0]] += 1; continue
        k = case['dialect'] + ' ' + tag
        tags[k] += 1
        if k not in first or len(json.dumps(case)) < len(json.dumps(first[k][0])):
            first[k] = (case, msg)
t()
print('time %.1fs' % (time.time() - t0)); print(dict(stats))
for k, v in rej.most_common(8): print('  rej', v, k)
for k, v in tags.most_common(): print('VIO', v, k)
for k, (c, m) in first.items():
    print('=====', k); print(m[:700]); print(json.dumps(c)[:1500])
import shutil; shutil.rmtree(work, ignore_errors=True)
