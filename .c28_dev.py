import sys, time, collections
sys.path.insert(0, '/verif')
from vlib import c28_model as M
from checks import c28
t=time.time()
out = collections.Counter(); bad = []; n=0; cl=collections.Counter()
which = sys.argv[1] if len(sys.argv) > 1 else 'all'
gen = M.handover_grid() if which == 'F' else M.grid_cases()
for c in gen:
    n+=1
    r = M.resolve(c)
    v, msg = c28.execute(c, r)
    out[v]+=1
    for k in r['classes']:
        if 'hand' in k or 'peer' in k: cl[k]+=1
    if v == 'violation': bad.append(msg)
print(n, round(time.time()-t,1), dict(out))
for k,v in sorted(cl.items()): print('  ', k, v)
seen=set()
for m in bad:
    k = m.split('\n')[-1][:60]
    if k in seen: continue
    seen.add(k); print(m); print()
    if len(seen) > 6: break
