import sys, os, time, json, threading, resource
sys.path.insert(0, '/verif')
from vlib import c17_prog as P, faultdb
wd = '/verif/.scratch_c17/w'
tpl = wd + '/tpl.sqlite'
prog = {'sessions': [
  {'mode': 'optimistic', 'ops': [['new_person', 1, 2, 3], ['raw_insert', 1, 0, 0], ['flush', 1, 0, 0], ['set_qty', 0, 5, 0], ['commit', 1,0,0], ['del_person', 0,0,0], ['db_insert',1,1,1]], 'end': 'commit'},
  {'mode': 'immediate', 'ops': [['tag_add', 0, 1, 0], ['bulk_delete', 1, 0, 0], ['rollback', 1,0,0], ['new_item', 0,1,2]], 'end': 'raise'},
]}
import gc; gc.disable()
T = {'env': 0, 'run': 0}
def target(k, ev, park):
    t0 = time.thread_time()
    env = P.Env(tpl, wd + '/crash/c%d.sqlite' % k, [{'at': k, 'when': 'before', 'exc': 'park' if park else 'operational'}], parked=ev)
    t1 = time.thread_time()
    T['env'] += t1 - t0
    def oc(e):
        if e['i'] == k: T['run'] += time.thread_time() - t1
    env.rec.on_call = oc
    try: P.Interp(env, prog).run()
    except Exception: pass
    ev.set()
os.makedirs(wd + '/crash', exist_ok=True)
for park in (False, True):
    T = {'env': 0, 'run': 0}
    t = time.time()
    for k in range(58):
        ev = threading.Event()
        th = threading.Thread(target=target, args=(k, ev, park)); th.daemon = True; th.start(); ev.wait()
    print('park', park, time.time() - t, T)
os._exit(0)
