import sys, os, time, json
sys.path.insert(0, '/verif')
from vlib import c17_prog as P, faultdb
from hypothesis import given, settings, seed, HealthCheck
wd = '/verif/.scratch_c17/w'; os.makedirs(wd, exist_ok=True)
tpl = P.make_template(wd + '/tpl.sqlite')
srv = P.CrashServer()
T = {'dry': 0, 'err': 0, 'crash': 0, 'n': 0, 'progs': 0}
@seed(3)
@settings(max_examples=6, database=None, deadline=None, suppress_health_check=list(HealthCheck))
@given(P.programs())
def t(prog):
    t0 = time.time()
    d = P.DryRun(tpl, wd + '/run.sqlite', prog)
    t1 = time.time()
    for k in range(d.n):
        for when in ('before', 'after'):
            m = P.error_run(tpl, wd + '/run.sqlite', prog, d, k, when, 'operational')
            assert not m, m
    t2 = time.time()
    for k, m in P.crash_runs(srv, tpl, wd, prog, d, range(d.n)):
        assert not m, m
    t3 = time.time()
    T['dry'] += t1 - t0; T['err'] += t2 - t1; T['crash'] += t3 - t2; T['n'] += d.n; T['progs'] += 1
t0 = time.time()
t()
print(T, 'total', time.time() - t0)
srv.close()
