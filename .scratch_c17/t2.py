import sys, os, time, json, shutil
sys.path.insert(0, '/verif')
from vlib import c17_prog as P, faultdb
wd = '/verif/.scratch_c17/w'
tpl = wd + '/tpl.sqlite'
prog = {'sessions': [
  {'mode': 'optimistic', 'ops': [['new_person', 1, 2, 3], ['raw_insert', 1, 0, 0]], 'end': 'commit'}]}
d = P.DryRun(tpl, wd + '/run.sqlite', prog)
srv = P.CrashServer()
for k in range(6):
    path = wd + '/crash.sqlite'
    t0 = time.time()
    for p in (path, path + '-journal'):
        if os.path.exists(p): os.remove(p)
    shutil.copyfile(tpl, path)
    t1 = time.time()
    res = srv.request({'program': prog, 'path': path, 'k': k})
    t2 = time.time()
    got = faultdb.read_database(path)
    t3 = time.time()
    print(k, res, 'copy %.3f req %.3f read %.3f' % (t1 - t0, t2 - t1, t3 - t2))
srv.close()
