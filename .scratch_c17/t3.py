import sys, os, time, json, shutil
sys.path.insert(0, '/verif')
import pony.orm, pony.orm.dbproviders.sqlite
from vlib import c17_prog as P, faultdb
wd = '/verif/.scratch_c17/w'
tpl = wd + '/tpl.sqlite'
prog = {'sessions': [
  {'mode': 'optimistic', 'ops': [['new_person', 1, 2, 3], ['raw_insert', 1, 0, 0]], 'end': 'commit'}]}
for k in range(4):
    path = wd + '/crash.sqlite'
    shutil.copyfile(tpl, path)
    t0 = time.time()
    pid = os.fork()
    if pid == 0:
        t1 = time.time()
        from pony.orm import Database
        rec = faultdb.Recorder([])
        db = Database()
        E = P.define_entities(db)
        t2 = time.time()
        db.bind('sqlite', path, create_db=False, factory=faultdb.make_factory(rec), timeout=0)
        t3 = time.time()
        db.generate_mapping(check_tables=False, create_tables=False)
        t4 = time.time()
        rec.start()
        class Env: pass
        env = Env(); env.db, env.E, env.rec, env.path = db, E, rec, path
        P.Interp(env, prog).run()
        t5 = time.time()
        sys.stderr.write('child fork %.3f define %.3f bind %.3f map %.3f run %.3f\n' % (t1-t0, t2-t1, t3-t2, t4-t3, t5-t4))
        os._exit(0)
    os.waitpid(pid, 0)
    print('total', time.time() - t0)
