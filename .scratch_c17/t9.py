import sys, os, time, json, threading, resource
sys.path.insert(0, '/verif')
from vlib import c17_prog as P, faultdb, c17_crash
wd = '/verif/.scratch_c17/w'
tpl = wd + '/tpl.sqlite'
prog = {'sessions': [
  {'mode': 'optimistic', 'ops': [['new_person', 1, 2, 3], ['raw_insert', 1, 0, 0], ['flush', 1, 0, 0], ['set_qty', 0, 5, 0], ['commit', 1,0,0], ['del_person', 0,0,0], ['db_insert',1,1,1]], 'end': 'commit'},
  {'mode': 'immediate', 'ops': [['tag_add', 0, 1, 0], ['bulk_delete', 1, 0, 0], ['rollback', 1,0,0], ['new_item', 0,1,2]], 'end': 'raise'},
]}
if len(sys.argv) > 1: threading.stack_size(int(sys.argv[1]) * 1024)
d = wd + '/crash'; os.makedirs(d, exist_ok=True)
req = {'program': prog, 'template': tpl, 'dir': d}
status = {}
import gc; gc.disable()
r0 = resource.getrusage(resource.RUSAGE_SELF)
t = time.time()
for k in range(58):
    c17_crash.one_run(req, k, status)
r1 = resource.getrusage(resource.RUSAGE_SELF)
print('58 parked runs', time.time() - t, 'minflt', r1.ru_minflt - r0.ru_minflt, 'maxrss', r1.ru_maxrss, 'utime', r1.ru_utime - r0.ru_utime, 'stime', r1.ru_stime - r0.ru_stime)
os._exit(0)
