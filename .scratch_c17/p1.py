import sqlite3, time, sys
class Cur(sqlite3.Cursor):
    def execute(self, sql, *a):
        print('  cur.execute', sql[:40]); return sqlite3.Cursor.execute(self, sql, *a)
class Con(sqlite3.Connection):
    def __init__(self, *a, **k):
        print('connect', a, k); sqlite3.Connection.__init__(self, *a, **k)
    def cursor(self, factory=None):
        print('  con.cursor'); return sqlite3.Connection.cursor(self, Cur)
    def execute(self, sql, *a):
        print(' con.execute', sql[:40]); return sqlite3.Connection.execute(self, sql, *a)
    def commit(self):
        print(' commit'); return sqlite3.Connection.commit(self)
    def rollback(self):
        print(' rollback'); return sqlite3.Connection.rollback(self)
    def close(self):
        print(' close'); return sqlite3.Connection.close(self)
c = sqlite3.connect(':memory:', isolation_level=None, factory=Con)
c.execute('select 1')
c.close()
try: c.cursor()
except Exception as e: print(type(e), e)
c.close()
t=time.time()
import pony.orm
print('import pony', time.time()-t)
