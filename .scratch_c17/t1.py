import sys, os, time, json
sys.path.insert(0, '/verif')
from vlib import c17_prog as P, faultdb
wd = '/verif/.scratch_c17/w'; os.makedirs(wd, exist_ok=True)
tpl = P.make_template(wd + '/tpl.sqlite')
prog = {'sessions': [
  {'mode': 'optimistic', 'ops': [['new_person', 1, 2, 3], ['raw_insert', 1, 0, 0], ['flush', 1, 0, 0], ['set_qty', 0, 5, 0], ['commit', 1,0,0], ['del_person', 0,0,0], ['db_insert',1,1,1]], 'end': 'commit'},
  {'mode': 'immediate', 'ops': [['tag_add', 0, 1, 0], ['bulk_delete', 1, 0, 0], ['rollback', 1,0,0], ['new_item', 0,1,2]], 'end': 'raise'},
]}
t = time.time()
d = P.DryRun(tpl, wd + '/run.sqlite', prog)
print('dry', time.time() - t, 'n', d.n, 'error', d.error)
for e, dirty in zip(d.calls, d.dirty):
    print(e['i'], e['kind'], e['sql'] and e['sql'][:70], 'tx' if e['in_tx'] else '', 'dirty' if dirty else '', e.get('rowcount'))
print(d.points)
for s in d.states: print(json.dumps(s)[:300])
print('final==last', d.final == d.states[-1])
t = time.time()
bad = 0
for k in range(d.n + 1):
    for when in ('before', 'after'):
        m = P.error_run(tpl, wd + '/run.sqlite', prog, d, k, when, 'operational')
        if m: bad += 1; print(m)
print('error runs', time.time() - t, bad)
srv = P.CrashServer()
t = time.time()
for k in range(d.n):
    m = P.crash_run(srv, tpl, wd + '/crash.sqlite', prog, d, k)
    if m: print(m)
print('crash runs', time.time() - t)
srv.close()
