import time, os, mmap
t=time.time(); m = mmap.mmap(-1, 100*1024*1024); 
for i in range(0, len(m), 4096): m[i] = 1
print('touch 25600 pages', time.time()-t)
t=time.time()
pid=os.fork()
if pid==0: os._exit(0)
os.waitpid(pid,0); print('bare fork+wait', time.time()-t)
t=time.time(); x=0
for i in range(3000000): x+=i
print('cpu loop', time.time()-t)
