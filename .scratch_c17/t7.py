import sys, os, time, json, cProfile, pstats
sys.path.insert(0, '/verif')
from vlib import c17_prog as P, faultdb
wd = '/verif/.scratch_c17/w'; os.makedirs(wd, exist_ok=True)
tpl = P.make_template(wd + '/tpl.sqlite')
prog = {'sessions': [
  {'mode': 'optimistic', 'ops': [['new_person', 1, 2, 3], ['raw_insert', 1, 0, 0], ['flush', 1, 0, 0], ['set_qty', 0, 5, 0], ['commit', 1,0,0], ['del_person', 0,0,0], ['db_insert',1,1,1]], 'end': 'commit'},
  {'mode': 'immediate', 'ops': [['tag_add', 0, 1, 0], ['bulk_delete', 1, 0, 0], ['rollback', 1,0,0], ['new_item', 0,1,2]], 'end': 'raise'},
]}
d = P.DryRun(tpl, wd + '/run.sqlite', prog)
def go():
    for k in range(d.n):
        m = P.error_run(tpl, wd + '/run.sqlite', prog, d, k, 'before', 'operational')
        assert not m, m
t=time.time(); go(); print('first', time.time()-t)
cProfile.run('go()', wd + '/prof')
pstats.Stats(wd + '/prof').sort_stats('tottime').print_stats(18)
