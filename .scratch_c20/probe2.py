import sys, time
sys.path.insert(0, '/verif')
from vlib import sched
t0 = time.time()
N = 200
for _ in range(N):
    s = sched.Scheduler(3)
    sched.run_interleaving(s, [6, 6, 6], lambda i, k: (lambda: k), [0, 1, 2] * 6)
    s.close()
print('per case (18 trivial steps, 3 threads)', (time.time() - t0) / N)
import os
print(os.getloadavg())
