import sys, os, time
sys.path.insert(0, '/verif')
from vlib import sched
from decimal import Decimal
from pony.orm import *
from pony.orm import core

def define(db):
    class E(db.Entity):
        id = PrimaryKey(int)
        n = Required(int)
        s = Required(str)
    return {'E': E}

for layout in ('multi', 'shared'):
    fn = '/verif/.scratch_c20/p_%s.sqlite' % layout
    if os.path.exists(fn): os.remove(fn)
    t0 = time.time()
    w = sched.World(fn, 2, layout, define)
    print('world', layout, time.time() - t0)
    mon = w.monitor()
    mon.execute("insert into E(id, n, s) values (1, 0, 'a')")
    st = [dict(), dict()]
    def begin(i):
        db_session.__enter__()
    def get(i):
        st[i]['o'] = w.classes(i)['E'][1]
    def read(i):
        return st[i]['o'].n
    def write(i):
        st[i]['o'].s = 'w%d' % i
    def writen(i):
        st[i]['o'].n = 5
    def fl(i):
        w.db(i).flush()
    def commit(i):
        db_session.__exit__()
    scripts = [[begin, get, read, write, fl, commit], [begin, get, writen, fl, commit]]
    for schedule in ([0,0,0,0,1,1,1,0,1,1,0,0], [0,0,0,1,1,1,1,1,0,0,0], [0,0,0,0,0,1,1,1,1,0,1]):
        s = w.open_case()
        def after(ev):
            ev['db'] = mon.execute('select * from E').fetchall()
        try:
            evs = sched.run_interleaving(s, [len(x) for x in scripts], lambda i, k: (lambda: scripts[i][k](i)), schedule, after)
            for ev in evs: print(ev['actor'], scripts[ev['actor']][ev['op']].__name__, ev['outcome'], repr(ev.get('value', ev.get('error', ev.get('lock')))), ev['db'])
        except sched.Deadlock as d:
            print('deadlock', d)
        w.close_case()
        mon.execute("update E set n=0, s='a'")
        print('---')
    t0 = time.time()
    for _ in range(50):
        s = w.open_case()
        evs = sched.run_interleaving(s, [len(x) for x in scripts], lambda i, k: (lambda: scripts[i][k](i)), [0,1]*3, after)
        w.close_case()
        mon.execute("update E set n=0, s='a'")
    print('per case', (time.time()-t0)/50)
    w.close()
